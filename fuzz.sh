#!/bin/bash
# Coverage-guided stage of the thorough tier (libFuzzer via cargo-fuzz, nightly toolchain).
#   fuzz.sh build        build the generic target against /repo's current tree
#   fuzz.sh run <Cxx>    fuzz every randomly-searched space of the property; merges a
#                        fuzz_stage record into evidence/<Cxx>.json; exit 1 + VIOLATION on a finding
set -u
ROOT="$(cd "$(dirname "${BASH_SOURCE[0]}")" && pwd)"
H="$ROOT/harness"; F="$H/fuzz"
export CARGO_NET_OFFLINE=true LSVERIF_ROOT="$ROOT"
unset CARGO_TARGET_DIR CARGO_BUILD_TARGET_DIR RUSTFLAGS CARGO_ENCODED_RUSTFLAGS
BIN="$H/target/release/lsverif"
TGT="$F/target/x86_64-unknown-linux-gnu/release/prop"

build() {
    mkdir -p "$F/target"
    (cd "$F" && RUSTFLAGS="--cfg lucid_suggest_verif" cargo +nightly fuzz build >"$F/target/.build.log" 2>&1) || { echo "fuzz build failed (see $F/target/.build.log)"; return 2; }
}

merge_evidence() {  # id json-fragment
    python3 - "$ROOT/evidence/$1.json" "$2" <<'PY'
import json,sys
p,frag=sys.argv[1],json.loads(sys.argv[2])
try: e=json.load(open(p))
except Exception: sys.exit(0)
e.setdefault('coverage',{}).setdefault('fuzz_stage',[]).append(frag)
json.dump(e,open(p,'w'),indent=1,ensure_ascii=False)
PY
}

case "${1:-}" in
build) build; exit $? ;;
run)
    id="${2:?id}"
    if ! build; then
        merge_evidence "$id" '{"status":"skipped","reason":"nightly fuzz build unavailable"}'
        echo "fuzz stage skipped for $id (build unavailable)"; exit 0
    fi
    seed=$(( (${VERIF_SEED:-20260927} % 2147483647 + 2147483647) % 2147483647 + 1 ))
    runs=${LSVERIF_FUZZ_RUNS:-150000}
    # exploration budget per space: whichever comes first, the run count or the wall clock
    # (running out of either only ends the exploration; it is never a verdict)
    secs=${LSVERIF_FUZZ_SECS:-180}
    jobs=${LSVERIF_FUZZ_JOBS:-16}
    rc=0
    while read -r si sname; do
        [ -z "$si" ] && continue
        W="$F/corpus/$id-$si-$$"; rm -rf "$W"; mkdir -p "$W/corpus" "$W/out"
        "$BIN" corpus "$id" "$si" "$W/corpus" 64 "$seed" >/dev/null
        t0=$(date +%s)
        ( cd "$W" && LSVERIF_FUZZ_PROP="$id" LSVERIF_FUZZ_SPACE="$si" LSVERIF_FUZZ_OUT="$W/out" \
            "$TGT" corpus -seed="$seed" -runs="$runs" -max_total_time="$secs" -len_control=0 -max_len=1536 -jobs="$jobs" -workers="$jobs" \
            -timeout=60 -rss_limit_mb=4096 -malloc_limit_mb=3000 -print_final_stats=1 -artifact_prefix="$W/out/" >"$W/driver.log" 2>&1 )
        t1=$(date +%s)
        execs=$(cat "$W"/fuzz-*.log 2>/dev/null | grep -a "stat::number_of_executed_units" | awk '{s+=$2} END{print s+0}')
        cov=$(cat "$W"/fuzz-*.log 2>/dev/null | grep -a -o "cov: [0-9]*" | awk '{if($2>m)m=$2} END{print m+0}')
        ncorp=$(ls "$W/corpus" | wc -l)
        nchoices=$(ls "$W/out"/*.choices 2>/dev/null | wc -l)
        ncrash=$(ls "$W/out"/crash-* 2>/dev/null | wc -l)
        nslow=$(ls "$W/out"/timeout-* "$W/out"/oom-* 2>/dev/null | wc -l)
        status="clean"
        if [ "$nchoices" -gt 0 ]; then
            status="violation"
            f=$(ls "$W/out"/*.choices | head -1)
            "$BIN" shrinkfile "$id" "$si" "$f"; r=$?
            [ $r -eq 1 ] && rc=1
        elif [ "$ncrash" -gt 0 ]; then
            status="crash"
            c=$(ls "$W/out"/crash-* | head -1)
            { echo "abort"; "$BIN" bytes2choices "$id" "$si" "$c"; echo "process aborted under the fuzzer (ASan / UB-check / abort)"; } > "$W/out/abort.choices"
            "$BIN" shrinkfile "$id" "$si" "$W/out/abort.choices"; r=$?
            [ $r -eq 1 ] && rc=1
        elif [ "$nslow" -gt 0 ]; then
            status="inconclusive-timeout-or-oom"
            echo "INCONCLUSIVE property=$id fuzz stage hit a timeout/oom artifact in space $sname"
            [ $rc -eq 0 ] && rc=2
        fi
        merge_evidence "$id" "{\"engine\":\"libFuzzer (cargo-fuzz, ASan, debug assertions, hooks on)\",\"space\":\"$sname\",\"status\":\"$status\",\"seed\":$seed,\"jobs\":$jobs,\"runs_per_job\":$runs,\"max_seconds\":$secs,\"executions\":$execs,\"edge_coverage\":$cov,\"corpus_files\":$ncorp,\"wall_s\":$((t1-t0)),\"seed_corpus\":\"64 byte-encoded random cases + empty input\"}"
        echo "$id fuzz stage space=$sname: $execs executions, cov $cov, corpus $ncorp, ${status}, $((t1-t0))s"
        rm -rf "$W"
    done < <("$BIN" fuzzspaces "$id")
    exit $rc ;;
*) echo "usage: fuzz.sh build | run <Cxx>"; exit 2 ;;
esac
