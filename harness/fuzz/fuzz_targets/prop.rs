#![no_main]
//! One generic libFuzzer target: the property and space are selected with
//! LSVERIF_FUZZ_PROP / LSVERIF_FUZZ_SPACE; bytes -> choice sequence -> same decoder -> same check.
use libfuzzer_sys::fuzz_target;
use std::sync::OnceLock;

static REG: OnceLock<lsverif::engine::Registry> = OnceLock::new();

fuzz_target!(|data: &[u8]| {
    let reg = REG.get_or_init(lsverif::props::registry);
    lsverif::fuzz::one_input(reg, data);
});
