//! Shared types: cases, check context, violations, property definitions, known findings.

use crate::source::Source;
use serde_json::Value;
use std::collections::{BTreeMap, BTreeSet};
use std::hash::{Hash, Hasher};
use std::sync::Mutex;

#[derive(Clone, Copy, Debug, PartialEq, Eq)]
pub enum Tier {
    Quick,
    Thorough,
}

impl Tier {
    pub fn parse(s: &str) -> Tier {
        if s == "thorough" { Tier::Thorough } else { Tier::Quick }
    }
    pub fn name(&self) -> &'static str {
        match self { Tier::Quick => "quick", Tier::Thorough => "thorough" }
    }
    /// pick by tier, scaled by VERIF_SCALE (experiments only; registered commands never set it)
    pub fn n(&self, quick: u64, thorough: u64) -> u64 {
        let base = match self { Tier::Quick => quick, Tier::Thorough => thorough };
        let scale: f64 = std::env::var("VERIF_SCALE").ok().and_then(|s| s.parse().ok()).unwrap_or(1.0);
        ((base as f64) * scale).ceil().max(1.0) as u64
    }
}

#[derive(Clone, Debug)]
pub struct Violation {
    /// which clause of the property failed; shrinking keeps only candidates failing the same clause
    pub clause: String,
    /// clause + crisp input predicate; matched against known_findings.json
    pub signature: String,
    pub detail: String,
}

/// A decoded, valid test case.
pub trait Case: Send {
    fn describe(&self) -> Value;
    /// hash of the decoded case (distinctness is counted on decoded cases, not choice vectors)
    fn key(&self) -> u64;
    fn check(&self, ctx: &mut Ctx) -> Result<(), Violation>;
    /// C01 differential leg: run the case with no oracle, return a digest of everything returned
    fn digest(&self) -> Option<u64> {
        None
    }
}

pub struct Ctx {
    pub labels: BTreeSet<&'static str>,
    pub counters: BTreeMap<&'static str, u64>,
    pub nontrivial: bool,
    pub digest: Option<u64>,
    pub excluded_known: BTreeMap<String, (u64, String)>,
    /// strict = ignore known findings (used when replaying a known finding on purpose)
    pub strict: bool,
    pub prop: &'static str,
}

impl Ctx {
    pub fn new(prop: &'static str) -> Ctx {
        Ctx {
            labels: BTreeSet::new(),
            counters: BTreeMap::new(),
            nontrivial: false,
            digest: None,
            excluded_known: BTreeMap::new(),
            strict: false,
            prop,
        }
    }
    pub fn label(&mut self, l: &'static str) {
        self.labels.insert(l);
    }
    pub fn label_if(&mut self, c: bool, l: &'static str) {
        if c {
            self.labels.insert(l);
        }
    }
    pub fn count(&mut self, c: &'static str, n: u64) {
        *self.counters.entry(c).or_insert(0) += n;
    }
    pub fn nontrivial(&mut self) {
        self.nontrivial = true;
    }
    /// Report a failed clause. `pred` is the crisp input predicate part of the signature ("" if none).
    /// Returns Ok(()) when the signature is a listed known finding (counted, search continues).
    pub fn fail(&mut self, clause: &str, pred: &str, detail: String) -> Result<(), Violation> {
        let signature = if pred.is_empty() {
            format!("{}/{}", self.prop, clause)
        } else {
            format!("{}/{}/{}", self.prop, clause, pred)
        };
        if !self.strict && is_known(&signature) {
            let e = self.excluded_known.entry(signature).or_insert((0, String::new()));
            e.0 += 1;
            if e.1.is_empty() {
                e.1 = detail;
            }
            return Ok(());
        }
        Err(Violation { clause: clause.to_string(), signature, detail })
    }
}

pub enum Plan {
    /// this many random cases in total (split over the workers)
    Random(u64),
    /// every choice vector of the iterator; `true` = the sub-space is enumerated completely
    Enumerate(Box<dyn Iterator<Item = Vec<u32>> + Send>, bool, &'static str),
    Skip,
}

pub struct Space {
    pub name: &'static str,
    pub decode: fn(&mut Source) -> Box<dyn Case>,
    pub plan: fn(Tier) -> Plan,
}

pub struct PropDef {
    pub id: &'static str,
    pub title: &'static str,
    pub rule: &'static str,
    pub assumptions: &'static [&'static str],
    pub spaces: Vec<Space>,
    /// second leg with the shipping build (C01)
    pub differential: bool,
    /// starvation floors: (counter name, minimum per executed case). A counter below its floor
    /// means the probes the check relies on are no longer being made (e.g. a precondition that
    /// depends on the code under test stopped holding): exit 2, never a pass.
    pub floors: &'static [(&'static str, f64)],
}

pub fn hash64<T: Hash + ?Sized>(t: &T) -> u64 {
    let mut h = Fnv64(0xcbf29ce484222325);
    t.hash(&mut h);
    h.0
}

pub struct Fnv64(pub u64);
impl Hasher for Fnv64 {
    fn finish(&self) -> u64 {
        self.0
    }
    fn write(&mut self, bytes: &[u8]) {
        for b in bytes {
            self.0 ^= *b as u64;
            self.0 = self.0.wrapping_mul(0x100000001b3);
        }
    }
}

// ---------------------------------------------------------------- known findings

pub const KNOWN_FINDINGS_JSON: &str = include_str!("../../known_findings.json");

#[derive(Clone, Debug)]
pub struct Finding {
    pub property: String,
    pub status: String,
    pub signature: String,
    pub what: String,
    pub entry: String,
}

pub fn findings() -> Vec<Finding> {
    let v: Value = serde_json::from_str(KNOWN_FINDINGS_JSON).expect("known_findings.json must parse");
    let mut out = Vec::new();
    if let Some(arr) = v.get("findings").and_then(|a| a.as_array()) {
        for f in arr {
            let g = |k: &str| f.get(k).and_then(|x| x.as_str()).unwrap_or("").to_string();
            out.push(Finding {
                property: g("property"),
                status: g("status"),
                signature: g("signature"),
                what: g("what"),
                entry: g("entry"),
            });
        }
    }
    out
}

static KNOWN: Mutex<Option<BTreeSet<String>>> = Mutex::new(None);

pub fn is_known(signature: &str) -> bool {
    let mut g = KNOWN.lock().unwrap_or_else(|e| e.into_inner());
    if g.is_none() {
        *g = Some(
            findings()
                .into_iter()
                .filter(|f| f.status == "known")
                .map(|f| f.signature)
                .collect(),
        );
    }
    g.as_ref().unwrap().contains(signature)
}

// ---------------------------------------------------------------- panic capture

static LAST_PANIC: Mutex<Option<(String, String)>> = Mutex::new(None);

pub fn install_panic_hook() {
    std::panic::set_hook(Box::new(|info| {
        let loc = info
            .location()
            .map(|l| {
                let f = l.file();
                let f = f.rsplit("rust/core/").next().unwrap_or(f);
                format!("{}:{}", f, l.line())
            })
            .unwrap_or_else(|| "?".into());
        let msg = if let Some(s) = info.payload().downcast_ref::<&str>() {
            s.to_string()
        } else if let Some(s) = info.payload().downcast_ref::<String>() {
            s.clone()
        } else {
            "?".to_string()
        };
        let mut g = LAST_PANIC.lock().unwrap_or_else(|e| e.into_inner());
        // keep the first panic of a case (later ones are usually consequences)
        if g.is_none() {
            *g = Some((msg, loc));
        }
    }));
}

pub fn take_panic() -> Option<(String, String)> {
    LAST_PANIC.lock().unwrap_or_else(|e| e.into_inner()).take()
}

pub fn clear_panic() {
    *LAST_PANIC.lock().unwrap_or_else(|e| e.into_inner()) = None;
}

/// Run `f` in a freshly spawned thread: every library thread-local (distance matrix, Jaccard
/// buffers, match scratch, store registry) starts pristine and dies with the thread.
/// Err = the closure panicked (message @ location).
pub fn isolated<T: Send + 'static, F: FnOnce() -> T + Send + 'static>(f: F) -> Result<T, String> {
    let h = std::thread::Builder::new()
        .stack_size(8 << 20)
        .spawn(f)
        .expect("spawn");
    match h.join() {
        Ok(v) => Ok(v),
        Err(_) => {
            let p = take_panic();
            Err(p.map(|(m, l)| format!("{} @ {}", m, l)).unwrap_or_else(|| "panic".into()))
        }
    }
}

/// Outcome of one case executed in its own thread.
pub struct CaseRun {
    pub ctx: Ctx,
    pub rec: Vec<u32>,
    pub bounds: Vec<u32>,
    pub key: u64,
    pub result: Result<(), Violation>,
    pub desc: Option<Value>,
}

/// Decode + check one case in a fresh thread. `on_decoded` runs after decoding and before the
/// check (the worker uses it to publish the choice vector to its in-flight file).
pub fn run_case(
    prop: &'static str,
    decode: fn(&mut Source) -> Box<dyn Case>,
    mut src: Source,
    strict: bool,
    digest_only: bool,
    want_desc: impl Fn(&Ctx) -> bool + Send + 'static,
    on_decoded: impl FnOnce(&[u32]) + Send + 'static,
) -> Result<CaseRun, (String, String)> {
    clear_panic();
    let h = std::thread::Builder::new()
        .stack_size(16 << 20)
        .spawn(move || {
            let case = decode(&mut src);
            on_decoded(&src.rec);
            let mut ctx = Ctx::new(prop);
            ctx.strict = strict;
            let result = if digest_only {
                ctx.digest = case.digest();
                Ok(())
            } else {
                case.check(&mut ctx)
            };
            let desc = if result.is_err() || want_desc(&ctx) { Some(case.describe()) } else { None };
            CaseRun { key: case.key(), ctx, rec: src.rec, bounds: src.bounds, result, desc }
        })
        .expect("spawn case thread");
    match h.join() {
        Ok(r) => Ok(r),
        Err(_) => Err(take_panic().unwrap_or(("panic".into(), "?".into()))),
    }
}

pub fn show(s: &str) -> String {
    format!("{:?}", s)
}
