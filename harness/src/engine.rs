//! Driver / worker / probe processes, shrinking, replay files and evidence.

use crate::core::*;
use crate::source::{mix, mix_str, PrngKind, Source};
use serde_json::{json, Value};
use std::collections::{BTreeMap, BTreeSet, HashSet};
use std::io::{BufRead, BufReader, Read, Write};
use std::os::unix::fs::FileExt;
use std::path::{Path, PathBuf};
use std::process::{Child, Command, Stdio};
use std::sync::{Arc, Mutex};
use std::time::{Duration, Instant};

pub const WORKERS: usize = 16;
const CASE_TIMEOUT_S: u64 = 60;
const SHRINK_BUDGET: usize = 6000;
const VMEM_KB: u64 = 3 * 1024 * 1024;

pub fn verif_root() -> PathBuf {
    if let Ok(r) = std::env::var("LSVERIF_ROOT") {
        return PathBuf::from(r);
    }
    PathBuf::from("/verif")
}

pub struct Registry {
    pub props: Vec<PropDef>,
}

impl Registry {
    pub fn get(&self, id: &str) -> Option<&PropDef> {
        self.props.iter().find(|p| p.id == id)
    }
}

fn prop_static(reg: &Registry, id: &str) -> &'static str {
    // ids are 'static in the defs
    reg.get(id).map(|p| p.id).unwrap_or("C??")
}

// ------------------------------------------------------------------------- worker

fn worker_seed(seed: u64, prop: &str, space: usize, worker: usize) -> u64 {
    mix(mix(mix_str(seed, prop), space as u64), worker as u64)
}

struct Inflight {
    file: std::fs::File,
}

impl Inflight {
    fn open(path: &Path) -> Inflight {
        let file = std::fs::OpenOptions::new().create(true).write(true).read(true).truncate(true).open(path).expect("inflight");
        Inflight { file }
    }
    /// layout: u64 case counter, u32 space, u64 case seed, u32 len (0xFFFFFFFF = not decoded yet), u32*len
    fn begin(&self, counter: u64, space: u32, seed: u64) {
        let mut b = Vec::with_capacity(24);
        b.extend_from_slice(&counter.to_le_bytes());
        b.extend_from_slice(&space.to_le_bytes());
        b.extend_from_slice(&seed.to_le_bytes());
        b.extend_from_slice(&u32::MAX.to_le_bytes());
        let _ = self.file.write_at(&b, 0);
    }
    fn decoded(&self, rec: &[u32]) {
        let mut b = Vec::with_capacity(4 + rec.len() * 4);
        b.extend_from_slice(&(rec.len() as u32).to_le_bytes());
        for v in rec {
            b.extend_from_slice(&v.to_le_bytes());
        }
        let _ = self.file.write_at(&b, 20);
    }
}

pub struct InflightInfo {
    pub counter: u64,
    pub space: u32,
    pub seed: u64,
    pub rec: Option<Vec<u32>>,
}

pub fn read_inflight(path: &Path) -> Option<InflightInfo> {
    let mut f = std::fs::File::open(path).ok()?;
    let mut b = Vec::new();
    f.read_to_end(&mut b).ok()?;
    if b.len() < 24 {
        return None;
    }
    let counter = u64::from_le_bytes(b[0..8].try_into().ok()?);
    let space = u32::from_le_bytes(b[8..12].try_into().ok()?);
    let seed = u64::from_le_bytes(b[12..20].try_into().ok()?);
    let len = u32::from_le_bytes(b[20..24].try_into().ok()?);
    let rec = if len == u32::MAX {
        None
    } else {
        let mut v = Vec::new();
        for i in 0..len as usize {
            let o = 24 + i * 4;
            if o + 4 > b.len() {
                break;
            }
            v.push(u32::from_le_bytes(b[o..o + 4].try_into().ok()?));
        }
        Some(v)
    };
    Some(InflightInfo { counter, space, seed, rec })
}

fn read_counter(path: &Path) -> Option<u64> {
    let f = std::fs::File::open(path).ok()?;
    let mut b = [0u8; 8];
    f.read_at(&mut b, 0).ok()?;
    Some(u64::from_le_bytes(b))
}

#[derive(Default)]
struct SpaceStats {
    evaluations: u64,
    nontrivial: u64,
    labels: BTreeMap<String, u64>,
    counters: BTreeMap<String, u64>,
    samples: Vec<Value>,
    enumerated_complete: bool,
    enumerated: bool,
    enum_note: String,
    wall_s: f64,
}

/// `lsverif worker <prop> <tier> <seed> <prng> <index> <of> <workdir> [digest]`
pub fn worker_main(reg: &Registry, args: &[String]) -> i32 {
    let prop = reg.get(&args[0]).expect("unknown property");
    let tier = Tier::parse(&args[1]);
    let seed: u64 = args[2].parse().unwrap();
    let kind = PrngKind::parse(&args[3]);
    let index: usize = args[4].parse().unwrap();
    let of: usize = args[5].parse().unwrap();
    let workdir = PathBuf::from(&args[6]);
    let digest_only = args.get(7).map(|s| s == "digest").unwrap_or(false);
    let tag = if digest_only { "s" } else { "c" };
    install_panic_hook();

    let inflight = Arc::new(Inflight::open(&workdir.join(format!("{}{}.inflight", tag, index))));
    let mut hashes: Vec<u64> = Vec::new();
    let mut digests: Vec<u8> = Vec::new();
    let mut excluded: BTreeMap<String, (u64, String)> = BTreeMap::new();
    let mut stats: Vec<SpaceStats> = Vec::new();
    let mut failure: Option<Value> = None;
    let mut counter: u64 = 0;
    let sampled: Arc<Mutex<BTreeSet<&'static str>>> = Arc::new(Mutex::new(BTreeSet::new()));

    'spaces: for (si, space) in prop.spaces.iter().enumerate() {
        let mut st = SpaceStats::default();
        let t_space = Instant::now();
        let wseed = worker_seed(seed, prop.id, si, index);
        // the list of (case seed, optional explicit vector)
        let plan = (space.plan)(tier);
        let mut iter: Box<dyn Iterator<Item = (u64, Option<Vec<u32>>)>> = match plan {
            Plan::Skip => Box::new(std::iter::empty()),
            Plan::Random(total) => {
                let share = total / of as u64 + if (index as u64) < total % of as u64 { 1 } else { 0 };
                Box::new((0..share).map(move |k| (mix(wseed, k), None)))
            }
            Plan::Enumerate(it, complete, note) => {
                st.enumerated = true;
                st.enumerated_complete = complete;
                st.enum_note = note.to_string();
                Box::new(it.enumerate().filter(move |(k, _)| k % of == index).map(|(k, v)| (k as u64, Some(v))))
            }
        };
        let mut k_in_space: u64 = 0;
        while let Some((cseed, explicit)) = iter.next() {
            counter += 1;
            inflight.begin(counter, si as u32, cseed);
            let src = match &explicit {
                Some(v) => Source::replay(v),
                None => Source::random(kind, cseed),
            };
            let infl = inflight.clone();
            let shared_rec: Arc<Mutex<Option<Vec<u32>>>> = Arc::new(Mutex::new(None));
            let sr = shared_rec.clone();
            let first = k_in_space == 0;
            let sampled2 = sampled.clone();
            let want = move |ctx: &Ctx| {
                if first {
                    return true;
                }
                let mut g = sampled2.lock().unwrap();
                let mut w = false;
                for l in ctx.labels.iter() {
                    if g.len() < 40 && g.insert(l) {
                        w = true;
                    }
                }
                w
            };
            let run = run_case(prop.id, space.decode, src, false, digest_only, want, move |rec| {
                infl.decoded(rec);
                *sr.lock().unwrap() = Some(rec.to_vec());
            });
            k_in_space += 1;
            match run {
                Ok(r) => {
                    st.evaluations += 1;
                    if digest_only {
                        digests.extend_from_slice(&(si as u32).to_le_bytes());
                        digests.extend_from_slice(&cseed.to_le_bytes());
                        digests.extend_from_slice(&r.ctx.digest.unwrap_or(0).to_le_bytes());
                        continue;
                    }
                    if let Some(d) = r.ctx.digest {
                        digests.extend_from_slice(&(si as u32).to_le_bytes());
                        digests.extend_from_slice(&cseed.to_le_bytes());
                        digests.extend_from_slice(&d.to_le_bytes());
                    }
                    for (sig, (n, d)) in r.ctx.excluded_known.iter() {
                        let e = excluded.entry(sig.clone()).or_insert((0, String::new()));
                        e.0 += n;
                        if e.1.is_empty() {
                            e.1 = d.clone();
                        }
                    }
                    for l in r.ctx.labels.iter() {
                        *st.labels.entry(l.to_string()).or_insert(0) += 1;
                    }
                    for (c, n) in r.ctx.counters.iter() {
                        *st.counters.entry(c.to_string()).or_insert(0) += n;
                    }
                    if r.ctx.nontrivial {
                        st.nontrivial += 1;
                        hashes.push(r.key ^ mix(si as u64, 77));
                    }
                    if let Some(d) = &r.desc {
                        if st.samples.len() < 12 && r.result.is_ok() {
                            let labels: Vec<&str> = r.ctx.labels.iter().cloned().collect();
                            st.samples.push(json!({"space": space.name, "labels": labels, "nontrivial": r.ctx.nontrivial, "case": d}));
                        }
                    }
                    if let Err(v) = r.result {
                        failure = Some(json!({
                            "space": si, "space_name": space.name, "case_seed": cseed.to_string(),
                            "choices": r.rec, "clause": v.clause, "signature": v.signature,
                            "detail": v.detail, "case": r.desc,
                        }));
                        stats.push(st);
                        break 'spaces;
                    }
                }
                Err((msg, loc)) => {
                    st.evaluations += 1;
                    let rec = shared_rec.lock().unwrap().clone();
                    let clause = format!("panic@{}", loc);
                    failure = Some(json!({
                        "space": si, "space_name": space.name, "case_seed": cseed.to_string(),
                        "choices": rec, "clause": clause,
                        "signature": format!("{}/{}", prop.id, clause),
                        "detail": msg, "case": Value::Null,
                    }));
                    stats.push(st);
                    break 'spaces;
                }
            }
        }
        st.wall_s = t_space.elapsed().as_secs_f64();
        if failure.is_none() {
            stats.push(st);
        }
    }

    // write results
    let mut hb = Vec::with_capacity(hashes.len() * 8);
    for h in &hashes {
        hb.extend_from_slice(&h.to_le_bytes());
    }
    std::fs::write(workdir.join(format!("{}{}.hashes", tag, index)), hb).ok();
    std::fs::write(workdir.join(format!("{}{}.digests", tag, index)), digests).ok();
    let spaces_json: Vec<Value> = stats
        .iter()
        .enumerate()
        .map(|(i, s)| {
            json!({
                "space": prop.spaces[i].name, "evaluations": s.evaluations, "nontrivial": s.nontrivial,
                "labels": s.labels, "counters": s.counters, "samples": s.samples,
                "enumerated": s.enumerated, "complete": s.enumerated_complete, "enum_note": s.enum_note, "wall_s": s.wall_s,
            })
        })
        .collect();
    let excl: Vec<Value> = excluded.iter().map(|(s, (n, d))| json!({"signature": s, "count": n, "example": d})).collect();
    let out = json!({"index": index, "spaces": spaces_json, "failure": failure, "excluded_known": excl, "done": true});
    let tmp = workdir.join(format!("{}{}.json.tmp", tag, index));
    std::fs::write(&tmp, serde_json::to_vec(&out).unwrap()).ok();
    std::fs::rename(&tmp, workdir.join(format!("{}{}.json", tag, index))).ok();
    if failure.is_some() { 3 } else { 0 }
}

// ------------------------------------------------------------------------- probe

/// `lsverif probe <prop> <space-index> [digest]`: one candidate per stdin line
/// ("v1 v2 ..." or "S <prng> <seed>"); answers one line per candidate.
pub fn probe_main(reg: &Registry, args: &[String]) -> i32 {
    let prop = reg.get(&args[0]).expect("unknown property");
    let si: usize = args[1].parse().unwrap();
    let digest_only = args.get(2).map(|s| s == "digest").unwrap_or(false);
    let strict = std::env::var("LSVERIF_STRICT").is_ok();
    install_panic_hook();
    let space = &prop.spaces[si];
    let stdin = std::io::stdin();
    let stdout = std::io::stdout();
    for line in stdin.lock().lines() {
        let line = match line { Ok(l) => l, Err(_) => break };
        let src = parse_candidate(&line);
        let run = run_case(prop.id, space.decode, src, strict, digest_only, |_| false, |_| {});
        let ans = match run {
            Ok(r) => {
                let rec: Vec<String> = r.rec.iter().map(|v| v.to_string()).collect();
                match r.result {
                    Ok(()) => json!({"r": "pass", "digest": r.ctx.digest.map(|d| d.to_string()), "rec": rec.join(" ")}),
                    Err(v) => json!({"r": "fail", "clause": v.clause, "signature": v.signature, "detail": v.detail,
                                     "rec": rec.join(" "), "case": r.desc}),
                }
            }
            Err((msg, loc)) => {
                let clause = format!("panic@{}", loc);
                json!({"r": "fail", "clause": clause, "signature": format!("{}/{}", prop.id, clause), "detail": msg, "rec": Value::Null, "case": Value::Null})
            }
        };
        let mut o = stdout.lock();
        let _ = writeln!(o, "{}", ans);
        let _ = o.flush();
    }
    0
}

fn parse_candidate(line: &str) -> Source {
    let t = line.trim();
    if let Some(rest) = t.strip_prefix("S ") {
        let mut it = rest.split_whitespace();
        let kind = PrngKind::parse(it.next().unwrap_or("splitmix"));
        let seed: u64 = it.next().and_then(|s| s.parse().ok()).unwrap_or(0);
        Source::random(kind, seed)
    } else {
        let v: Vec<u32> = t.split_whitespace().filter_map(|s| s.parse().ok()).collect();
        Source::replay(&v)
    }
}

pub enum ProbeAns {
    Pass { digest: Option<u64>, rec: Vec<u32> },
    Fail { clause: String, signature: String, detail: String, rec: Option<Vec<u32>>, case: Value },
    Died,
    Hung,
}

pub struct Prober {
    exe: PathBuf,
    prop: String,
    space: usize,
    digest: bool,
    strict: bool,
    child: Option<(Child, std::sync::mpsc::Receiver<String>)>,
    pub executions: usize,
}

impl Prober {
    pub fn new(exe: &Path, prop: &str, space: usize, digest: bool, strict: bool) -> Prober {
        Prober { exe: exe.to_path_buf(), prop: prop.to_string(), space, digest, strict, child: None, executions: 0 }
    }
    fn ensure(&mut self) {
        if self.child.is_some() {
            return;
        }
        let mut cmd = limited_command(&self.exe);
        cmd.arg("probe").arg(&self.prop).arg(self.space.to_string());
        if self.digest {
            cmd.arg("digest");
        }
        if self.strict {
            cmd.env("LSVERIF_STRICT", "1");
        }
        cmd.stdin(Stdio::piped()).stdout(Stdio::piped()).stderr(Stdio::null());
        let mut child = cmd.spawn().expect("spawn probe");
        let out = child.stdout.take().unwrap();
        let (tx, rx) = std::sync::mpsc::channel();
        std::thread::spawn(move || {
            let r = BufReader::new(out);
            for l in r.lines() {
                match l {
                    Ok(l) => {
                        if tx.send(l).is_err() {
                            break;
                        }
                    }
                    Err(_) => break,
                }
            }
        });
        self.child = Some((child, rx));
    }
    fn kill(&mut self) {
        if let Some((mut c, _)) = self.child.take() {
            let _ = c.kill();
            let _ = c.wait();
        }
    }
    pub fn test_line(&mut self, line: &str) -> ProbeAns {
        self.executions += 1;
        self.ensure();
        let (child, rx) = self.child.as_mut().unwrap();
        let ok = child.stdin.as_mut().map(|s| writeln!(s, "{}", line).and_then(|_| s.flush()).is_ok()).unwrap_or(false);
        if !ok {
            self.kill();
            return ProbeAns::Died;
        }
        match rx.recv_timeout(Duration::from_secs(CASE_TIMEOUT_S)) {
            Ok(l) => {
                let v: Value = serde_json::from_str(&l).unwrap_or(Value::Null);
                let rec = v.get("rec").and_then(|r| r.as_str()).map(|s| s.split_whitespace().filter_map(|x| x.parse().ok()).collect::<Vec<u32>>());
                match v.get("r").and_then(|r| r.as_str()) {
                    Some("pass") => ProbeAns::Pass {
                        digest: v.get("digest").and_then(|d| d.as_str()).and_then(|s| s.parse().ok()),
                        rec: rec.unwrap_or_default(),
                    },
                    Some("fail") => ProbeAns::Fail {
                        clause: v["clause"].as_str().unwrap_or("").to_string(),
                        signature: v["signature"].as_str().unwrap_or("").to_string(),
                        detail: v["detail"].as_str().unwrap_or("").to_string(),
                        rec,
                        case: v.get("case").cloned().unwrap_or(Value::Null),
                    },
                    _ => {
                        self.kill();
                        ProbeAns::Died
                    }
                }
            }
            Err(std::sync::mpsc::RecvTimeoutError::Timeout) => {
                self.kill();
                ProbeAns::Hung
            }
            Err(_) => {
                self.kill();
                ProbeAns::Died
            }
        }
    }
    pub fn test(&mut self, v: &[u32]) -> ProbeAns {
        let line: Vec<String> = v.iter().map(|x| x.to_string()).collect();
        self.test_line(&line.join(" "))
    }
}

impl Drop for Prober {
    fn drop(&mut self) {
        self.kill();
    }
}

fn limited_command(exe: &Path) -> Command {
    // address-space cap: a runaway allocation becomes an abort instead of eating the machine
    let mut c = Command::new("sh");
    c.arg("-c").arg(format!("ulimit -v {}; exec \"$0\" \"$@\"", VMEM_KB)).arg(exe);
    // few malloc arenas: short-lived case threads must not each reserve their own 64 MiB arena
    c.env("MALLOC_ARENA_MAX", "4");
    c
}

// ------------------------------------------------------------------------- shrinking

/// What it means for a candidate to "still fail the same way".
pub struct Target {
    pub clause: String,
}

pub struct Verdict {
    pub fails: bool,
    pub rec: Option<Vec<u32>>,
    pub detail: String,
    pub signature: String,
    pub case: Value,
}

pub trait Oracle {
    fn test(&mut self, v: &[u32]) -> Verdict;
    fn executions(&self) -> usize;
}

pub struct SingleOracle {
    pub prober: Prober,
    pub clause: String,
}

impl Oracle for SingleOracle {
    fn test(&mut self, v: &[u32]) -> Verdict {
        match self.prober.test(v) {
            ProbeAns::Fail { clause, signature, detail, rec, case } if clause == self.clause => Verdict { fails: true, rec, detail, signature, case },
            ProbeAns::Died if self.clause == "abort" => Verdict { fails: true, rec: None, detail: "process died (abort / signal)".into(), signature: String::new(), case: Value::Null },
            _ => Verdict { fails: false, rec: None, detail: String::new(), signature: String::new(), case: Value::Null },
        }
    }
    fn executions(&self) -> usize {
        self.prober.executions
    }
}

/// differential oracle: fails when the two builds disagree (or exactly one of them crashes)
pub struct DiffOracle {
    pub checked: Prober,
    pub shipping: Prober,
}

impl Oracle for DiffOracle {
    fn test(&mut self, v: &[u32]) -> Verdict {
        let a = self.checked.test(v);
        let b = self.shipping.test(v);
        let show = |p: &ProbeAns| match p {
            ProbeAns::Pass { digest, .. } => format!("digest {:?}", digest),
            ProbeAns::Fail { clause, detail, .. } => format!("{}: {}", clause, detail),
            ProbeAns::Died => "process died".to_string(),
            ProbeAns::Hung => "hung".to_string(),
        };
        let detail = format!("checked build: {}; shipping build: {}", show(&a), show(&b));
        let (fails, rec) = match (&a, &b) {
            (ProbeAns::Pass { digest: d1, rec }, ProbeAns::Pass { digest: d2, .. }) => (d1 != d2, Some(rec.clone())),
            (ProbeAns::Hung, _) | (_, ProbeAns::Hung) => (false, None),
            (ProbeAns::Pass { rec, .. }, _) => (true, Some(rec.clone())),
            (_, ProbeAns::Pass { rec, .. }) => (true, Some(rec.clone())),
            _ => (false, None), // both crash: that is the panic clause, not the differential one
        };
        Verdict { fails, rec, detail, signature: String::new(), case: Value::Null }
    }
    fn executions(&self) -> usize {
        self.checked.executions + self.shipping.executions
    }
}

pub struct Shrunk {
    pub choices: Vec<u32>,
    pub detail: String,
    pub signature: String,
    pub case: Value,
    pub executions: usize,
    pub reproduced: bool,
}

pub fn shrink(orc: &mut dyn Oracle, start: &[u32]) -> Shrunk {
    let mut best: Vec<u32> = start.to_vec();
    let first = orc.test(&best);
    if !first.fails {
        return Shrunk { choices: best, detail: first.detail, signature: first.signature, case: first.case, executions: orc.executions(), reproduced: false };
    }
    let mut last = first;
    if let Some(r) = &last.rec {
        if r.len() <= best.len() {
            best = r.clone();
        }
    }
    fn simpler(a: &[u32], b: &[u32]) -> bool {
        // shortlex
        a.len() < b.len() || (a.len() == b.len() && a < b)
    }
    // try a candidate; adopt it (normalised to what the decoder actually consumed) if it still fails
    fn attempt(orc: &mut dyn Oracle, best: &mut Vec<u32>, last: &mut Verdict, cand: Vec<u32>) -> bool {
        if !simpler(&cand, best) {
            return false;
        }
        let v = orc.test(&cand);
        if !v.fails {
            return false;
        }
        let c2 = v.rec.clone().filter(|r| r.len() <= cand.len()).unwrap_or(cand);
        if simpler(&c2, best) {
            *best = c2;
            *last = v;
            true
        } else {
            false
        }
    }
    let budget = SHRINK_BUDGET;
    let mut improved = true;
    let mut round = 0;
    while improved && orc.executions() < budget {
        improved = false;
        round += 1;
        // A. truncate (the replay source answers 0 beyond the end): halve while it still fails
        loop {
            if best.len() < 2 || orc.executions() >= budget {
                break;
            }
            let mut cand = best.clone();
            cand.truncate(best.len() / 2);
            if attempt(orc, &mut best, &mut last, cand) {
                improved = true;
            } else {
                break;
            }
        }
        // B. zero large chunks, then delete chunks (ddmin style), sizes n/2 .. 1
        let mut size = (best.len() / 2).max(1);
        loop {
            // zero
            if size >= 2 {
                let mut i = 0;
                while i < best.len() && orc.executions() < budget {
                    let hi = (i + size).min(best.len());
                    if best[i..hi].iter().any(|&x| x != 0) {
                        let mut cand = best.clone();
                        for x in &mut cand[i..hi] {
                            *x = 0;
                        }
                        if attempt(orc, &mut best, &mut last, cand) {
                            improved = true;
                        }
                    }
                    i += size;
                }
            }
            // delete, scanning from the end
            let mut i = best.len();
            while i >= size && i > 0 && orc.executions() < budget {
                let lo = i - size;
                let mut cand = best.clone();
                cand.drain(lo..i);
                if attempt(orc, &mut best, &mut last, cand) {
                    improved = true;
                    i = i.min(best.len());
                } else {
                    i -= if size > 4 { size / 2 } else { 1 };
                }
            }
            if size == 1 {
                break;
            }
            size /= 2;
            if round > 1 && size > 8 {
                size = 8;
            }
        }
        // C. lower a value by one (or to zero) and delete the k draws that follow it: removes one
        //    element of a counted list together with the draws that produced it
        let mut i = 0;
        while i < best.len() && orc.executions() < budget {
            if best[i] > 0 {
                'k: for &k in &[1usize, 2, 3, 4, 5, 6, 8, 10, 12, 16, 24, 32] {
                    if i + 1 + k > best.len() {
                        break;
                    }
                    for &nv in &[best[i] - 1, 0] {
                        let mut cand = best.clone();
                        cand[i] = nv;
                        cand.drain(i + 1..i + 1 + k);
                        if attempt(orc, &mut best, &mut last, cand) {
                            improved = true;
                            break 'k;
                        }
                        if nv == 0 {
                            break;
                        }
                    }
                    if orc.executions() >= budget {
                        break;
                    }
                }
            }
            i += 1;
        }
        // D. minimise single values (0 first, then binary search)
        let mut i = 0;
        while i < best.len() && orc.executions() < budget {
            if best[i] > 0 {
                let mut cand = best.clone();
                cand[i] = 0;
                if attempt(orc, &mut best, &mut last, cand) {
                    improved = true;
                } else {
                    let mut lo: u32 = 0;
                    let mut hi: u32 = best[i];
                    while lo + 1 < hi && orc.executions() < budget && i < best.len() {
                        let mid = lo + (hi - lo) / 2;
                        let mut cand = best.clone();
                        cand[i] = mid;
                        if attempt(orc, &mut best, &mut last, cand) {
                            improved = true;
                            hi = mid;
                        } else {
                            lo = mid;
                        }
                    }
                }
            }
            i += 1;
        }
        // E. sort adjacent pairs
        let mut i = 0;
        while i + 1 < best.len() && orc.executions() < budget {
            if best[i] > best[i + 1] {
                let mut cand = best.clone();
                cand.swap(i, i + 1);
                if attempt(orc, &mut best, &mut last, cand) {
                    improved = true;
                }
            }
            i += 1;
        }
    }
    Shrunk { choices: best, detail: last.detail, signature: last.signature, case: last.case, executions: orc.executions(), reproduced: true }
}

// ------------------------------------------------------------------------- driver

pub struct Found {
    pub space: usize,
    pub space_name: String,
    pub choices: Option<Vec<u32>>,
    pub case_seed: u64,
    pub clause: String,
    pub signature: String,
    pub detail: String,
    pub case: Value,
}

fn spawn_worker(exe: &Path, prop: &str, tier: Tier, seed: u64, kind: PrngKind, i: usize, of: usize, workdir: &Path, digest: bool) -> Child {
    let mut cmd = limited_command(exe);
    cmd.arg("worker").arg(prop).arg(tier.name()).arg(seed.to_string()).arg(kind.name()).arg(i.to_string()).arg(of.to_string()).arg(workdir);
    if digest {
        cmd.arg("digest");
    }
    cmd.stdin(Stdio::null()).stdout(Stdio::null()).stderr(Stdio::null());
    cmd.spawn().expect("spawn worker")
}

struct Leg {
    tag: &'static str,
    children: Vec<Option<Child>>,
    status: Vec<Option<std::process::ExitStatus>>,
    last_counter: Vec<(u64, Instant)>,
}

pub fn shipping_exe() -> PathBuf {
    if let Ok(p) = std::env::var("LSVERIF_SHIPPING") {
        return PathBuf::from(p);
    }
    verif_root().join("harness/target-shipping/shipping/lsverif")
}

/// `lsverif check <prop> [--tier quick|thorough]`; returns the process exit code
pub fn check_main(reg: &Registry, id: &str, tier: Tier) -> i32 {
    let t0 = Instant::now();
    let prop = match reg.get(id) {
        Some(p) => p,
        None => {
            eprintln!("unknown property {}", id);
            return 2;
        }
    };
    let seed: u64 = std::env::var("VERIF_SEED").ok().and_then(|s| s.trim().parse::<i128>().ok()).map(|v| v as u64).unwrap_or(20260927);
    let seed_json: i64 = std::env::var("VERIF_SEED").ok().and_then(|s| s.trim().parse::<i64>().ok()).unwrap_or(20260927);
    let kind = PrngKind::from_env_or_seed(seed);
    let exe = std::env::current_exe().expect("exe");
    let root = verif_root();
    let workdir = root.join(".work").join(format!("{}-{}-{}", id, tier.name(), std::process::id()));
    let _ = std::fs::remove_dir_all(&workdir);
    std::fs::create_dir_all(&workdir).expect("workdir");
    let w = std::env::var("VERIF_WORKERS").ok().and_then(|s| s.parse().ok()).unwrap_or(WORKERS);

    let ship = shipping_exe();
    let do_diff = prop.differential;
    if do_diff && !ship.exists() {
        eprintln!("shipping build missing at {} (run.sh builds it)", ship.display());
        return 2;
    }

    let mut legs: Vec<Leg> = Vec::new();
    let mk = |tag: &'static str, exe: &Path, digest: bool| -> Leg {
        let mut children = Vec::new();
        for i in 0..w {
            children.push(Some(spawn_worker(exe, id, tier, seed, kind, i, w, &workdir, digest)));
        }
        Leg { tag, children, status: vec![None; w], last_counter: vec![(0, Instant::now()); w] }
    };
    legs.push(mk("c", &exe, false));
    if do_diff {
        legs.push(mk("s", &ship, true));
    }

    // wait, with watchdog
    let mut hang: Option<(&'static str, usize)> = None;
    let mut first_failure_seen: Option<Instant> = None;
    loop {
        let mut running = 0;
        for leg in legs.iter_mut() {
            for i in 0..w {
                if let Some(ch) = leg.children[i].as_mut() {
                    match ch.try_wait() {
                        Ok(Some(st)) => {
                            leg.status[i] = Some(st);
                            leg.children[i] = None;
                            if !st.success() && first_failure_seen.is_none() {
                                first_failure_seen = Some(Instant::now());
                            }
                        }
                        Ok(None) => {
                            running += 1;
                            let c = read_counter(&workdir.join(format!("{}{}.inflight", leg.tag, i))).unwrap_or(0);
                            if c != leg.last_counter[i].0 {
                                leg.last_counter[i] = (c, Instant::now());
                            } else if leg.last_counter[i].1.elapsed() > Duration::from_secs(CASE_TIMEOUT_S) {
                                hang = Some((leg.tag, i));
                            }
                        }
                        Err(_) => {
                            leg.children[i] = None;
                        }
                    }
                }
            }
        }
        if running == 0 {
            break;
        }
        let stop = hang.is_some() || first_failure_seen.map(|t| t.elapsed() > Duration::from_secs(3)).unwrap_or(false);
        if stop {
            for leg in legs.iter_mut() {
                for ch in leg.children.iter_mut() {
                    if let Some(c) = ch.as_mut() {
                        let _ = c.kill();
                        let _ = c.wait();
                    }
                    *ch = None;
                }
            }
            break;
        }
        std::thread::sleep(Duration::from_millis(20));
    }

    // collect
    let mut evaluations: u64 = 0;
    let mut space_json: BTreeMap<String, Value> = BTreeMap::new();
    let mut classes: BTreeMap<String, u64> = BTreeMap::new();
    let mut counters: BTreeMap<String, u64> = BTreeMap::new();
    let mut samples: Vec<Value> = Vec::new();
    let mut distinct: HashSet<u64> = HashSet::new();
    let mut excluded: BTreeMap<String, (u64, String)> = BTreeMap::new();
    let mut found: Vec<Found> = Vec::new();
    let mut exhaustive_spaces: BTreeMap<String, (bool, u64, String)> = BTreeMap::new();
    let mut incomplete_workers = 0;

    for i in 0..w {
        let p = workdir.join(format!("c{}.json", i));
        let v: Option<Value> = std::fs::read(&p).ok().and_then(|b| serde_json::from_slice(&b).ok());
        match v {
            Some(v) => {
                for s in v["spaces"].as_array().cloned().unwrap_or_default() {
                    let name = s["space"].as_str().unwrap_or("").to_string();
                    let ev = s["evaluations"].as_u64().unwrap_or(0);
                    evaluations += ev;
                    let e = space_json.entry(name.clone()).or_insert(json!({"evaluations": 0u64, "nontrivial": 0u64}));
                    e["evaluations"] = json!(e["evaluations"].as_u64().unwrap_or(0) + ev);
                    e["nontrivial"] = json!(e["nontrivial"].as_u64().unwrap_or(0) + s["nontrivial"].as_u64().unwrap_or(0));
                    let w_old = e.get("max_worker_wall_s").and_then(|x| x.as_f64()).unwrap_or(0.0);
                    e["max_worker_wall_s"] = json!(w_old.max(s["wall_s"].as_f64().unwrap_or(0.0)));
                    if s["enumerated"].as_bool().unwrap_or(false) {
                        let x = exhaustive_spaces.entry(name.clone()).or_insert((s["complete"].as_bool().unwrap_or(false), 0, s["enum_note"].as_str().unwrap_or("").to_string()));
                        x.1 += ev;
                    }
                    if let Some(m) = s["labels"].as_object() {
                        for (k, n) in m {
                            *classes.entry(k.clone()).or_insert(0) += n.as_u64().unwrap_or(0);
                        }
                    }
                    if let Some(m) = s["counters"].as_object() {
                        for (k, n) in m {
                            *counters.entry(k.clone()).or_insert(0) += n.as_u64().unwrap_or(0);
                        }
                    }
                    if let Some(a) = s["samples"].as_array() {
                        for x in a {
                            samples.push(x.clone());
                        }
                    }
                }
                for x in v["excluded_known"].as_array().cloned().unwrap_or_default() {
                    let e = excluded.entry(x["signature"].as_str().unwrap_or("").to_string()).or_insert((0, String::new()));
                    e.0 += x["count"].as_u64().unwrap_or(0);
                    if e.1.is_empty() {
                        e.1 = x["example"].as_str().unwrap_or("").to_string();
                    }
                }
                if !v["failure"].is_null() {
                    let f = &v["failure"];
                    found.push(Found {
                        space: f["space"].as_u64().unwrap_or(0) as usize,
                        space_name: f["space_name"].as_str().unwrap_or("").to_string(),
                        choices: f["choices"].as_array().map(|a| a.iter().map(|x| x.as_u64().unwrap_or(0) as u32).collect()),
                        case_seed: f["case_seed"].as_str().and_then(|s| s.parse().ok()).unwrap_or(0),
                        clause: f["clause"].as_str().unwrap_or("").to_string(),
                        signature: f["signature"].as_str().unwrap_or("").to_string(),
                        detail: f["detail"].as_str().unwrap_or("").to_string(),
                        case: f["case"].clone(),
                    });
                }
                if let Ok(b) = std::fs::read(workdir.join(format!("c{}.hashes", i))) {
                    for c in b.chunks_exact(8) {
                        distinct.insert(u64::from_le_bytes(c.try_into().unwrap()));
                    }
                }
            }
            None => {
                // the worker died without a result file: abort / signal / killed
                incomplete_workers += 1;
                let killed_by_us = hang.is_some() || first_failure_seen.is_some();
                let st = legs[0].status[i];
                let died = st.map(|s| !s.success()).unwrap_or(false);
                if died && !(killed_by_us && st.is_none()) {
                    if let Some(inf) = read_inflight(&workdir.join(format!("c{}.inflight", i))) {
                        found.push(Found {
                            space: inf.space as usize,
                            space_name: prop.spaces.get(inf.space as usize).map(|s| s.name.to_string()).unwrap_or_default(),
                            choices: inf.rec,
                            case_seed: inf.seed,
                            clause: "abort".into(),
                            signature: format!("{}/abort", id),
                            detail: format!("worker process died ({:?}) while running this case", st),
                            case: Value::Null,
                        });
                    }
                }
            }
        }
    }

    // differential comparison
    let mut diff_compared: u64 = 0;
    if do_diff && hang.is_none() {
        for i in 0..w {
            let a = std::fs::read(workdir.join(format!("c{}.digests", i))).unwrap_or_default();
            let b = std::fs::read(workdir.join(format!("s{}.digests", i))).unwrap_or_default();
            let recs = |x: &[u8]| -> Vec<(u32, u64, u64)> {
                x.chunks_exact(20).map(|c| (u32::from_le_bytes(c[0..4].try_into().unwrap()), u64::from_le_bytes(c[4..12].try_into().unwrap()), u64::from_le_bytes(c[12..20].try_into().unwrap()))).collect()
            };
            let (ra, rb) = (recs(&a), recs(&b));
            let mut mismatch: Option<(u32, u64)> = None;
            for (x, y) in ra.iter().zip(rb.iter()) {
                if x.0 != y.0 || x.1 != y.1 {
                    break; // streams out of step (one leg stopped early)
                }
                diff_compared += 1;
                if x.2 != y.2 {
                    mismatch = Some((x.0, x.1));
                    break;
                }
            }
            // shipping worker died?
            let sjson = workdir.join(format!("s{}.json", i));
            if !sjson.exists() {
                let st = legs[1].status[i];
                if st.map(|s| !s.success()).unwrap_or(false) {
                    if let Some(inf) = read_inflight(&workdir.join(format!("s{}.inflight", i))) {
                        found.push(Found {
                            space: inf.space as usize,
                            space_name: prop.spaces.get(inf.space as usize).map(|s| s.name.to_string()).unwrap_or_default(),
                            choices: inf.rec,
                            case_seed: inf.seed,
                            clause: "differential".into(),
                            signature: format!("{}/differential", id),
                            detail: format!("shipping-build worker died ({:?}) on a case the checked build ran", st),
                            case: Value::Null,
                        });
                    }
                }
            } else if let Some(v) = std::fs::read(&sjson).ok().and_then(|b| serde_json::from_slice::<Value>(&b).ok()) {
                if !v["failure"].is_null() {
                    let f = &v["failure"];
                    found.push(Found {
                        space: f["space"].as_u64().unwrap_or(0) as usize,
                        space_name: f["space_name"].as_str().unwrap_or("").to_string(),
                        choices: f["choices"].as_array().map(|a| a.iter().map(|x| x.as_u64().unwrap_or(0) as u32).collect()),
                        case_seed: f["case_seed"].as_str().and_then(|s| s.parse().ok()).unwrap_or(0),
                        clause: "differential".into(),
                        signature: format!("{}/differential", id),
                        detail: format!("shipping build panicked: {} {}", f["clause"].as_str().unwrap_or(""), f["detail"].as_str().unwrap_or("")),
                        case: Value::Null,
                    });
                }
            }
            if let Some((si, cseed)) = mismatch {
                found.push(Found {
                    space: si as usize,
                    space_name: prop.spaces.get(si as usize).map(|s| s.name.to_string()).unwrap_or_default(),
                    choices: None,
                    case_seed: cseed,
                    clause: "differential".into(),
                    signature: format!("{}/differential", id),
                    detail: "checked and shipping builds returned different hit lists".into(),
                    case: Value::Null,
                });
            }
        }
    }

    let mut exit = 0;
    let mut violations = 0;
    let mut out_lines: Vec<String> = Vec::new();
    let mut violation_json: Vec<Value> = Vec::new();

    if let Some((tag, i)) = hang {
        let inf = read_inflight(&workdir.join(format!("{}{}.inflight", tag, i)));
        let path = write_replay(&root, id, "hang", &inf.as_ref().map(|x| x.space as usize).unwrap_or(0), prop, inf.as_ref().and_then(|x| x.rec.clone()), inf.as_ref().map(|x| x.seed).unwrap_or(0), kind, "watchdog", &format!("{}/hang", id), "a single case exceeded the 60 s watchdog", &Value::Null, seed, false);
        out_lines.push(format!("INCONCLUSIVE property={} possible hang (a case ran > {} s), replay={}", id, CASE_TIMEOUT_S, path.display()));
        exit = 2;
    }

    if exit == 0 && !found.is_empty() {
        // shrink and report the first finding (workers are ordered, so this is deterministic)
        let f = &found[0];
        let start: Option<Vec<u32>> = match &f.choices {
            Some(c) => Some(c.clone()),
            None => recover_choices(&exe, id, f.space, kind, f.case_seed),
        };
        let (choices, detail, signature, case, shrunk_info) = match start {
            Some(start) => {
                let strict = false;
                let sh = if f.clause == "differential" {
                    let mut orc = DiffOracle { checked: Prober::new(&exe, id, f.space, true, strict), shipping: Prober::new(&ship, id, f.space, true, strict) };
                    shrink(&mut orc, &start)
                } else {
                    let mut orc = SingleOracle { prober: Prober::new(&exe, id, f.space, false, strict), clause: f.clause.clone() };
                    shrink(&mut orc, &start)
                };
                let info = json!({"reproduced_in_isolation": sh.reproduced, "executions": sh.executions, "original_len": start.len(), "shrunk_len": sh.choices.len()});
                let detail = if sh.reproduced && !sh.detail.is_empty() { sh.detail.clone() } else { f.detail.clone() };
                let signature = if sh.reproduced && !sh.signature.is_empty() { sh.signature.clone() } else { f.signature.clone() };
                let mut case = if sh.reproduced && !sh.case.is_null() { sh.case.clone() } else { f.case.clone() };
                if case.is_null() {
                    case = describe_choices(&exe, id, f.space, &sh.choices);
                }
                (Some(sh.choices), detail, signature, case, info)
            }
            None => (None, f.detail.clone(), f.signature.clone(), f.case.clone(), json!({"note": "choice vector not recoverable (decoder crashed); replay by case seed"})),
        };
        let path = write_replay(&root, id, &f.clause, &f.space, prop, choices, f.case_seed, kind, &f.clause, &signature, &detail, &case, seed, true);
        out_lines.push(format!("clause: {}", f.clause));
        out_lines.push(format!("detail: {}", truncate(&detail, 1500)));
        out_lines.push(format!("case: {}", truncate(&case.to_string(), 3000)));
        out_lines.push(format!("VIOLATION property={} replay={}", id, path.display()));
        violation_json.push(json!({"clause": f.clause, "signature": signature, "detail": truncate(&detail, 1500), "replay": path, "shrink": shrunk_info, "other_findings_this_run": found.len() - 1}));
        violations = found.len();
        exit = 1;
    }

    for (sig, (n, ex)) in excluded.iter() {
        let what = findings().into_iter().find(|f| &f.signature == sig).map(|f| f.entry).unwrap_or_default();
        let what = what.trim_start_matches("known:").trim().trim_start_matches(&format!("property={}", id)).trim().to_string();
        out_lines.push(format!("KNOWN-FINDING: property={} {} [signature {}; {} occurrences this run, e.g. {}]", id, what, sig, n, truncate(ex, 300)));
    }

    // ---------------------------------------------------------------- evidence
    let wall = t0.elapsed().as_secs_f64();
    samples.truncate(24);
    if samples.is_empty() {
        samples.push(json!("no case completed"));
    }
    let exhaustive_json: Vec<Value> = exhaustive_spaces.iter().map(|(k, (c, n, note))| json!({"space": k, "complete": c, "cases": n, "what": note})).collect();
    let all_exhaustive = !exhaustive_spaces.is_empty() && exhaustive_spaces.len() == space_json.len() && exhaustive_spaces.values().all(|x| x.0);
    let mut coverage = json!({
        "evaluations": evaluations,
        "distinct_nontrivial": distinct.len(),
        "rule": prop.rule,
        "samples": samples,
        "exhaustive": all_exhaustive,
        "exhaustive_subspaces": exhaustive_json,
        "spaces": space_json,
        "classes": classes,
        "counters": counters,
        "excluded_known": excluded.iter().map(|(s, (n, _))| json!({"signature": s, "count": n})).collect::<Vec<_>>(),
        "prng": kind.name(),
        "workers": w,
        "incomplete_workers": incomplete_workers,
        "violation_details": violation_json,
    });
    if do_diff {
        coverage["differential_cases_compared"] = json!(diff_compared);
    }
    if let Ok(extra) = std::env::var("LSVERIF_FUZZ_STAGE") {
        coverage["fuzz_stage_note"] = json!(extra);
    }
    let ev = json!({
        "property_id": id,
        "tier": tier.name(),
        "seed": seed_json,
        "level": "exploration",
        "coverage": coverage,
        "assumptions": prop.assumptions,
        "wall_s": (wall * 1000.0).round() / 1000.0,
        "violations": violations,
    });
    let evdir = root.join("evidence");
    let _ = std::fs::create_dir_all(&evdir);
    let evpath = evdir.join(format!("{}.json", id));
    // a fuzz stage run by run.sh afterwards merges its own numbers into this file
    std::fs::write(&evpath, serde_json::to_string_pretty(&ev).unwrap()).expect("write evidence");

    println!(
        "{} {} seed={} prng={}: {} cases, {} distinct non-trivial, {:.1}s{}",
        id, tier.name(), seed_json, kind.name(), evaluations, distinct.len(), wall,
        if do_diff { format!(", {} cases compared checked-vs-shipping", diff_compared) } else { String::new() }
    );
    for l in out_lines {
        println!("{}", l);
    }
    let _ = std::fs::remove_dir_all(&workdir);
    // starvation guard: if (almost) nothing generated was non-trivial, the generator's preconditions
    // no longer meet the code under test - that is "not decided", never a pass
    if exit == 0 && evaluations >= 1000 && (distinct.len() as u64) * 200 < evaluations {
        println!("INCONCLUSIVE property={} generator starved: only {} of {} cases were non-trivial by the stated rule", id, distinct.len(), evaluations);
        return 2;
    }
    if exit == 0 {
        for (name, floor) in prop.floors.iter() {
            let have = *counters.get(*name).unwrap_or(&0) as f64 / (evaluations.max(1) as f64);
            if evaluations >= 1000 && have < *floor {
                println!("INCONCLUSIVE property={} generator starved: counter '{}' is {:.3} per case, floor {:.3}", id, name, have, floor);
                return 2;
            }
        }
    }
    if exit == 0 && (incomplete_workers > 0) {
        // a worker vanished without an attributable case: never a pass
        println!("INCONCLUSIVE property={} {} worker(s) ended without a result", id, incomplete_workers);
        return 2;
    }
    exit
}

fn truncate(s: &str, n: usize) -> String {
    if s.chars().count() <= n {
        s.to_string()
    } else {
        let t: String = s.chars().take(n).collect();
        format!("{}…", t)
    }
}

/// decode-only pass in a child (the decoder may consult the library): returns the choice vector of a seeded case
fn recover_choices(exe: &Path, prop: &str, space: usize, kind: PrngKind, cseed: u64) -> Option<Vec<u32>> {
    let out = limited_command(exe).arg("choices").arg(prop).arg(space.to_string()).arg(kind.name()).arg(cseed.to_string()).stderr(Stdio::null()).output().ok()?;
    if !out.status.success() {
        return None;
    }
    let s = String::from_utf8_lossy(&out.stdout);
    Some(s.split_whitespace().filter_map(|x| x.parse().ok()).collect())
}

fn describe_choices(exe: &Path, prop: &str, space: usize, choices: &[u32]) -> Value {
    let line: Vec<String> = choices.iter().map(|x| x.to_string()).collect();
    let out = limited_command(exe).arg("describe").arg(prop).arg(space.to_string()).arg(line.join(" ")).stderr(Stdio::null()).output();
    match out {
        Ok(o) if o.status.success() => serde_json::from_slice(&o.stdout).unwrap_or(Value::Null),
        _ => Value::Null,
    }
}

#[allow(clippy::too_many_arguments)]
fn write_replay(root: &Path, id: &str, _kind_tag: &str, space: &usize, prop: &PropDef, choices: Option<Vec<u32>>, cseed: u64, kind: PrngKind, clause: &str, signature: &str, detail: &str, case: &Value, run_seed: u64, _violation: bool) -> PathBuf {
    let dir = root.join("evidence").join("replays");
    let _ = std::fs::create_dir_all(&dir);
    let h = hash64(&(id, clause, &choices, cseed));
    let path = dir.join(format!("{}-{:016x}.json", id, h));
    let v = json!({
        "property": id,
        "space": prop.spaces.get(*space).map(|s| s.name).unwrap_or(""),
        "space_index": space,
        "clause": clause,
        "signature": signature,
        "detail": detail,
        "choices": choices,
        "case_seed": cseed.to_string(),
        "prng": kind.name(),
        "run_seed": run_seed.to_string(),
        "case": case,
        "how_to_replay": format!("/verif/run.sh replay {}", path.display()),
    });
    std::fs::write(&path, serde_json::to_string_pretty(&v).unwrap()).expect("write replay");
    path
}

/// `lsverif replay <file>`: decode the saved vector with a replay source and run the check directly
pub fn replay_main(reg: &Registry, path: &str) -> i32 {
    let v: Value = match std::fs::read(path).ok().and_then(|b| serde_json::from_slice(&b).ok()) {
        Some(v) => v,
        None => {
            eprintln!("cannot read {}", path);
            return 2;
        }
    };
    let id = v["property"].as_str().unwrap_or("");
    if reg.get(id).is_none() {
        return 2;
    }
    let space = v["space_index"].as_u64().unwrap_or(0) as usize;
    let exe = std::env::current_exe().unwrap();
    let strict = std::env::var("LSVERIF_STRICT").is_ok();
    let line = match v["choices"].as_array() {
        Some(a) => a.iter().map(|x| x.as_u64().unwrap_or(0).to_string()).collect::<Vec<_>>().join(" "),
        None => format!("S {} {}", v["prng"].as_str().unwrap_or("splitmix"), v["case_seed"].as_str().unwrap_or("0")),
    };
    let clause = v["clause"].as_str().unwrap_or("");
    if clause == "differential" {
        let mut a = Prober::new(&exe, id, space, true, strict);
        let mut b = Prober::new(&shipping_exe(), id, space, true, strict);
        let ra = a.test_line(&line);
        let rb = b.test_line(&line);
        let da = match &ra { ProbeAns::Pass { digest, .. } => format!("{:?}", digest), ProbeAns::Fail { clause, .. } => clause.clone(), _ => "died".into() };
        let db = match &rb { ProbeAns::Pass { digest, .. } => format!("{:?}", digest), ProbeAns::Fail { clause, .. } => clause.clone(), _ => "died".into() };
        println!("checked: {}  shipping: {}", da, db);
        if da != db {
            println!("VIOLATION property={} replay={}", id, path);
            return 1;
        }
        println!("replay passes: property={} both builds agree", id);
        return 0;
    }
    let mut p = Prober::new(&exe, id, space, false, strict);
    match p.test_line(&line) {
        ProbeAns::Pass { .. } => {
            println!("replay passes: property={} case no longer fails", id);
            0
        }
        ProbeAns::Fail { clause, detail, case, .. } => {
            println!("clause: {}\ndetail: {}\ncase: {}", clause, truncate(&detail, 2000), truncate(&case.to_string(), 3000));
            println!("VIOLATION property={} replay={}", id, path);
            1
        }
        ProbeAns::Died => {
            println!("clause: abort (process died)");
            println!("VIOLATION property={} replay={}", id, path);
            1
        }
        ProbeAns::Hung => {
            println!("INCONCLUSIVE property={} replay exceeded the watchdog", id);
            2
        }
    }
}

/// `lsverif choices <prop> <space> <prng> <seed>`: decode only, print the choice vector
pub fn choices_main(reg: &Registry, args: &[String]) -> i32 {
    let prop = reg.get(&args[0]).expect("prop");
    let space = &prop.spaces[args[1].parse::<usize>().unwrap()];
    let mut src = Source::random(PrngKind::parse(&args[2]), args[3].parse().unwrap());
    let _case = (space.decode)(&mut src);
    let v: Vec<String> = src.rec.iter().map(|x| x.to_string()).collect();
    println!("{}", v.join(" "));
    0
}

/// `lsverif describe <prop> <space> "<choices>"`
pub fn describe_main(reg: &Registry, args: &[String]) -> i32 {
    let prop = reg.get(&args[0]).expect("prop");
    let space = &prop.spaces[args[1].parse::<usize>().unwrap()];
    let mut src = parse_candidate(args.get(2).map(|s| s.as_str()).unwrap_or(""));
    let case = (space.decode)(&mut src);
    println!("{}", case.describe());
    0
}

/// `lsverif shrinkfile <prop> <space> <file.choices>`: shrink a violation found by the fuzz stage
/// in the checked build, write the replay file, print the VIOLATION line. Exit 1 if it reproduces.
pub fn shrinkfile_main(reg: &Registry, args: &[String]) -> i32 {
    let id = args[0].as_str();
    let prop = match reg.get(id) {
        Some(p) => p,
        None => return 2,
    };
    let space: usize = args[1].parse().unwrap_or(0);
    let text = std::fs::read_to_string(&args[2]).unwrap_or_default();
    let mut lines = text.lines();
    let clause = lines.next().unwrap_or("").to_string();
    let choices: Vec<u32> = lines.next().unwrap_or("").split_whitespace().filter_map(|x| x.parse().ok()).collect();
    let detail0 = lines.next().unwrap_or("").to_string();
    let exe = std::env::current_exe().unwrap();
    let mut orc = SingleOracle { prober: Prober::new(&exe, id, space, false, false), clause: clause.clone() };
    let sh = shrink(&mut orc, &choices);
    if !sh.reproduced {
        println!("fuzz finding did not reproduce in the checked build (clause {}): {}", clause, detail0);
        return 0;
    }
    let seed: u64 = std::env::var("VERIF_SEED").ok().and_then(|s| s.trim().parse::<i128>().ok()).map(|v| v as u64).unwrap_or(0);
    let mut case = sh.case.clone();
    if case.is_null() {
        case = describe_choices(&exe, id, space, &sh.choices);
    }
    let path = write_replay(&verif_root(), id, &clause, &space, prop, Some(sh.choices.clone()), 0, PrngKind::SplitMix, &clause, &sh.signature, &sh.detail, &case, seed, true);
    println!("clause: {}\ndetail: {}\ncase: {}", clause, truncate(&sh.detail, 1500), truncate(&case.to_string(), 3000));
    println!("VIOLATION property={} replay={}", id, path.display());
    1
}
