//! Entry points shared by the libFuzzer target (harness/fuzz) and the corpus / shrink helpers.
//! The fuzz target decodes libFuzzer's bytes with the SAME decoder the random search uses and
//! runs the SAME check, so the semantic oracle sits inside the target.

use crate::core::*;
use crate::engine::Registry;
use crate::source::{mix, PrngKind, Source};
use std::path::PathBuf;
use std::sync::OnceLock;

pub struct Selected {
    pub prop: &'static str,
    pub space: usize,
    pub decode: fn(&mut Source) -> Box<dyn Case>,
    pub out: PathBuf,
}

static SEL: OnceLock<Selected> = OnceLock::new();

pub fn select(reg: &Registry) -> &'static Selected {
    SEL.get_or_init(|| {
        let id = std::env::var("LSVERIF_FUZZ_PROP").expect("LSVERIF_FUZZ_PROP");
        let space: usize = std::env::var("LSVERIF_FUZZ_SPACE").ok().and_then(|s| s.parse().ok()).unwrap_or(0);
        let out = PathBuf::from(std::env::var("LSVERIF_FUZZ_OUT").unwrap_or_else(|_| ".".into()));
        let p = reg.get(&id).expect("unknown property");
        install_panic_hook();
        Selected { prop: p.id, space, decode: p.spaces[space].decode, out }
    })
}

/// one libFuzzer iteration; aborts the process (after saving the choice vector) on a violation
pub fn one_input(reg: &Registry, data: &[u8]) {
    let sel = select(reg);
    if data.len() > 1536 {
        return;
    }
    let src = Source::bytes(data);
    let shared: std::sync::Arc<std::sync::Mutex<Option<Vec<u32>>>> = std::sync::Arc::new(std::sync::Mutex::new(None));
    let sr = shared.clone();
    let run = run_case(sel.prop, sel.decode, src, false, false, |_| false, move |rec| {
        *sr.lock().unwrap() = Some(rec.to_vec());
    });
    let (clause, detail, rec) = match run {
        Ok(r) => match r.result {
            Ok(()) => return,
            Err(v) => (v.clause, v.detail, Some(r.rec)),
        },
        Err((msg, loc)) => (format!("panic@{}", loc), msg, shared.lock().unwrap().clone()),
    };
    let rec = rec.unwrap_or_default();
    let h = hash64(&(clause.as_str(), &rec));
    let path = sel.out.join(format!("{}-{}-{:016x}.choices", sel.prop, sel.space, h));
    let line: Vec<String> = rec.iter().map(|v| v.to_string()).collect();
    let _ = std::fs::write(&path, format!("{}\n{}\n{}\n", clause, line.join(" "), detail));
    eprintln!("lsverif-fuzz: VIOLATION property={} clause={} saved {}", sel.prop, clause, path.display());
    std::process::abort();
}

/// `lsverif corpus <prop> <space> <dir> <n> <seed>`: byte-encoded random cases as a seed corpus
pub fn corpus_main(reg: &Registry, args: &[String]) -> i32 {
    let prop = reg.get(&args[0]).expect("prop");
    let si: usize = args[1].parse().unwrap();
    let dir = PathBuf::from(&args[2]);
    let n: u64 = args[3].parse().unwrap();
    let seed: u64 = args[4].parse().unwrap();
    std::fs::create_dir_all(&dir).ok();
    std::fs::write(dir.join("empty"), b"").ok();
    for k in 0..n {
        let mut src = Source::random(PrngKind::from_env_or_seed(seed), mix(seed, k));
        let _case = (prop.spaces[si].decode)(&mut src);
        let bytes = src.to_bytes();
        if bytes.len() <= 1536 {
            std::fs::write(dir.join(format!("seed-{:04}", k)), bytes).ok();
        }
    }
    0
}
