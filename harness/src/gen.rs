//! Shared generators ("search world"). Every random choice goes through `Source`.

use crate::source::Source;
use crate::tables;
use lucid_suggest_core::*;

pub const LANGS: [&str; 7] = ["none", "de", "en", "es", "fr", "pt", "ru"];

/// A language assembled through the public `Lang` API only: it composes a/o + ring/diaeresis
/// (Swedish å ä ö) but folds nothing. Used by C02 / C15 next to the seven shipped languages.
pub fn lang_custom_sv() -> Lang {
    let mut l = Lang::new();
    for (d, c) in tables::COMPOSE_SV {
        l.add_unicode_composition(d, c);
    }
    l
}

/// custom language "xx" (see tables.rs); `late` = register half of the pairs after first use
pub fn lang_custom_xx(late: bool) -> Lang {
    let mut l = Lang::new();
    let nc = tables::COMPOSE_XX.len();
    let nr = tables::REDUCE_XX.len();
    let (c0, r0) = if late { (nc / 2, nr / 2) } else { (nc, nr) };
    for (d, c) in &tables::COMPOSE_XX[..c0] {
        l.add_unicode_composition(d, c);
    }
    for (a, b) in &tables::REDUCE_XX[..r0] {
        l.add_unicode_reduction(a, b);
    }
    if late {
        // the language is used (a title and a query are tokenised with it) ...
        let _ = lucid_suggest_core::tokenization::tokenize_record("wan\u{303}a ka", &l);
        let _ = tokenize_query("n\u{303}", &l);
        // ... and only then learns the rest of its alphabet
        for (d, c) in &tables::COMPOSE_XX[c0..] {
            l.add_unicode_composition(d, c);
        }
        for (a, b) in &tables::REDUCE_XX[r0..] {
            l.add_unicode_reduction(a, b);
        }
    }
    l
}

pub const LANGS_EXT: [&str; 10] = ["none", "de", "en", "es", "fr", "pt", "ru", "sv", "xx", "xl"];

pub fn gen_lang_ext(src: &mut Source) -> &'static str {
    LANGS_EXT[src.below(10)]
}

pub fn lang_of(code: &str) -> Lang {
    match code {
        "sv" => lang_custom_sv(),
        "xx" => lang_custom_xx(false),
        "xl" => lang_custom_xx(true),
        "de" => lang_german(),
        "en" => lang_english(),
        "es" => lang_spanish(),
        "fr" => lang_french(),
        "pt" => lang_portuguese(),
        "ru" => lang_russian(),
        _ => Lang::new(),
    }
}

pub fn gen_lang(src: &mut Source) -> &'static str {
    LANGS[src.below(7)]
}

const ECOM: &str = include_str!("../data/ecommerce_titles.txt");
const ENW: &str = include_str!("../data/en_words.txt");

pub fn ecommerce_titles() -> &'static [&'static str] {
    use std::sync::OnceLock;
    static V: OnceLock<Vec<&'static str>> = OnceLock::new();
    V.get_or_init(|| ECOM.lines().filter(|l| !l.is_empty()).collect())
}

pub fn en_words() -> &'static [&'static str] {
    use std::sync::OnceLock;
    static V: OnceLock<Vec<&'static str>> = OnceLock::new();
    V.get_or_init(|| ENW.lines().filter(|l| !l.is_empty()).collect())
}

pub fn is_cyr(lang: &str) -> bool {
    lang == "ru"
}

/// plain lower-case letters of the language's script
pub fn plain_letters(lang: &str) -> Vec<char> {
    if is_cyr(lang) {
        "абвгдежзийклмнопрстуфхцчшщъыьэюя".chars().collect()
    } else {
        "abcdefghijklmnopqrstuvwxyz".chars().collect()
    }
}

/// precomposed accented letters the language folds (keys of its reduce map, both cases), pinned
pub fn inventory(lang: &str) -> Vec<char> {
    tables::reduce_pairs(lang).iter().map(|(a, _)| a.chars().next().unwrap()).collect()
}

pub fn fold_of(lang: &str, c: char) -> Option<&'static str> {
    tables::reduce_pairs(lang).iter().find(|(a, _)| a.chars().next() == Some(c)).map(|(_, b)| *b)
}

/// canonical decomposition of a precomposed letter, from the pinned compose map of the language
pub fn decomp_of(lang: &str, c: char) -> Option<(char, char)> {
    tables::compose_pairs(lang).iter().find(|(_, b)| b.chars().next() == Some(c)).map(|(a, _)| {
        let mut it = a.chars();
        (it.next().unwrap(), it.next().unwrap())
    })
}

/// suffixes that the language's stemmer strips (so stem < len happens often)
pub fn suffixes(lang: &str) -> &'static [&'static str] {
    match lang {
        "en" => &["ing", "ed", "s", "es", "ly", "ness", "ation", "er"],
        "de" => &["en", "er", "ung", "e", "es", "lich", "heit"],
        "es" => &["ción", "mente", "os", "as", "ando", "ar", "es"],
        "fr" => &["ement", "tion", "er", "es", "s", "aient", "ité"],
        "pt" => &["ção", "mente", "os", "as", "ando", "ar", "es"],
        "ru" => &["ость", "ая", "ый", "ами", "ов", "ить", "ение"],
        _ => &["s", "ing"],
    }
}

#[derive(Clone, Copy, PartialEq, Eq, Debug)]
pub enum Flavor {
    /// letters, accents (both forms), cases, digits; separators between words
    Clean,
    /// Clean plus inner apostrophes/slashes, NUL, NBSP, controls, combining marks, odd Unicode
    Adversarial,
}

/// one "letter" of a word: returns 1 or 2 chars (decomposed accent)
/// accented letters of the language: the ones it folds plus the ones it composes
pub fn accent_letters(lang: &str) -> Vec<char> {
    let mut v = inventory(lang);
    for (_, c) in tables::compose_pairs(lang) {
        if let Some(ch) = c.chars().next() {
            if !v.contains(&ch) {
                v.push(ch);
            }
        }
    }
    v
}

pub fn gen_letter(src: &mut Source, lang: &str, out: &mut String, upper_ok: bool) {
    let inv = accent_letters(lang);
    let plain = plain_letters(lang);
    // 0 plain, 1 accented precomposed, 2 accented decomposed, 3 upper plain, 4 digit
    let k = src.weighted(&[24, if inv.is_empty() { 0 } else { 4 }, if inv.is_empty() { 0 } else { 2 }, if upper_ok { 2 } else { 0 }, 1]);
    match k {
        0 => out.push(*src.pick(&plain)),
        1 => {
            let c = *src.pick(&inv);
            if !upper_ok && c.is_uppercase() {
                out.extend(c.to_lowercase());
            } else {
                out.push(c);
            }
        }
        2 => {
            let c = *src.pick(&inv);
            match decomp_of(lang, c) {
                Some((b, m)) => {
                    out.push(b);
                    out.push(m);
                }
                None => out.push(c),
            }
        }
        3 => out.extend(src.pick(&plain).to_uppercase()),
        _ => out.push(*src.pick(&['0', '1', '2', '5', '9'])),
    }
}

pub fn gen_len(src: &mut Source) -> usize {
    // biased to 1-2 and 5-9
    match src.weighted(&[5, 2, 2, 1]) {
        0 => src.range(5, 9),
        1 => src.range(1, 2),
        2 => src.range(3, 4),
        _ => src.range(10, 14),
    }
}

pub fn gen_random_word(src: &mut Source, lang: &str, upper_ok: bool) -> String {
    let n = gen_len(src);
    let mut s = String::new();
    if src.chance(1, 12) {
        // low-entropy word: one or two distinct letters (xx, iii, 0000, abab)
        let plain = plain_letters(lang);
        let a = if src.chance(1, 4) { *src.pick(&['0', '1', '9']) } else { *src.pick(&plain) };
        let b = *src.pick(&plain);
        let n = if src.chance(1, 2) { src.range(1, 4) } else { n };
        for _ in 0..n {
            s.push(if src.chance(1, 4) { b } else { a });
        }
        return s;
    }
    for _ in 0..n {
        gen_letter(src, lang, &mut s, upper_ok);
    }
    s
}

/// a word: random letters, real word, stem-bearing, doubled letter, function word, inner punctuation
pub fn gen_word(src: &mut Source, lang: &str, flavor: Flavor) -> String {
    let adv = flavor == Flavor::Adversarial;
    let k = src.weighted(&[10, if lang == "en" || lang == "none" { 5 } else { 0 }, 4, 2, 3, if adv { 2 } else { 1 }, 1, 1, 1]);
    match k {
        7 => {
            // a word of another script (Greek in either case, kana with the long-vowel mark, CJK,
            // fullwidth Latin ...)
            let n = gen_len(src);
            let w = gen_script_word(src, n);
            if src.chance(1, 3) { w.to_uppercase() } else { w }
        }
        8 => {
            // numbers and number-like tokens
            src.pick(&["10", "000", "12", "5", "2024", "3", "25", "4", "100", "1", "0", "99"]).to_string()
        }
        0 => gen_random_word(src, lang, true),
        1 => src.pick(en_words()).to_string(),
        2 => {
            let mut w = gen_random_word(src, lang, false);
            w.push_str(*src.pick(suffixes(lang)));
            w
        }
        3 => {
            // doubled letter
            let w: Vec<char> = gen_random_word(src, lang, false).chars().collect();
            let i = src.below(w.len());
            let mut s: String = w[..=i].iter().collect();
            s.push(w[i]);
            s.extend(w[i + 1..].iter());
            s
        }
        4 => {
            let f = tables::func_words(lang);
            if f.is_empty() {
                gen_random_word(src, lang, true)
            } else {
                let mut w = src.pick(f).to_string();
                if src.chance(1, 3) {
                    // content word starting with a function word
                    for _ in 0..src.range(1, 4) {
                        gen_letter(src, lang, &mut w, false);
                    }
                }
                w
            }
        }
        5 => {
            // inner non-splitting punctuation: 50's, a/b, x_y, c++
            let a = gen_random_word(src, lang, true);
            let b = gen_random_word(src, lang, false);
            let p = *src.pick(&["'", "/", "_", "+", "’", ".", "×", "·", "º", "%", "#"]);
            format!("{}{}{}", a, p, b)
        }
        _ => {
            // expanding letters ß ẞ œ æ ø and friends inside a word
            let mut w = gen_random_word(src, lang, false);
            let x = *src.pick(&['ß', 'ẞ', 'œ', 'æ', 'ø', 'Œ', 'Æ', 'Ø']);
            let cs: Vec<char> = w.chars().collect();
            let i = src.below(cs.len() + 1);
            w = cs[..i].iter().collect();
            w.push(x);
            w.extend(cs[i..].iter());
            w
        }
    }
}

pub fn gen_vocab(src: &mut Source, lang: &str, flavor: Flavor, lo: usize, hi: usize) -> Vec<String> {
    let n = src.range(lo, hi);
    let mut v: Vec<String> = Vec::new();
    for _ in 0..n {
        if !v.is_empty() && src.chance(1, 5) {
            // a confusable sibling of an earlier word (diary / dairy, fried / fired): one edit away
            let mut w: Vec<char> = src.pick(&v).chars().collect();
            if w.len() >= 2 && src.chance(1, 2) {
                let i = src.below(w.len() - 1);
                w.swap(i, i + 1);
            } else {
                gen_edit(src, lang, &mut w);
            }
            if !w.is_empty() {
                v.push(w.into_iter().collect());
                continue;
            }
        }
        if !v.is_empty() && src.chance(1, 8) {
            // a word that is a proper prefix of an earlier one (car / carpenters), or an earlier
            // one with an ending, or a compound of two earlier ones (note + book)
            let a: Vec<char> = src.pick(&v).chars().collect();
            let w: String = match src.below(3) {
                0 if a.len() >= 3 => a[..src.range(2, a.len() - 1)].iter().collect(),
                1 => format!("{}{}", a.iter().collect::<String>(), src.pick(suffixes(lang))),
                _ => format!("{}{}", a.iter().collect::<String>(), src.pick(&v)),
            };
            v.push(w);
            continue;
        }
        v.push(gen_word(src, lang, flavor));
    }
    v
}

pub fn gen_sep(src: &mut Source, flavor: Flavor) -> &'static str {
    if flavor == Flavor::Clean {
        const S: &[&str] = &[" ", "-", ", ", "  ", " - ", "\t", ". ", ",", ".", ":", ";", "&", "!", "?", "(", ")", "\u{2011}", "\u{2013}", "\u{2014}", "\u{a0}", "\u{3000}", "\u{2009}", "\n"];
        S[src.weighted(&[40, 8, 4, 2, 2, 2, 2, 2, 2, 1, 1, 1, 1, 1, 1, 1, 1, 1, 1, 1, 1, 1, 1])]
    } else {
        const S: &[&str] = &[" ", "-", ", ", "  ", "—", "\t", "\u{a0}", "\0", "'", "_", "/", " \0 ", "\u{2028}", "!?", "\u{200b}", "+"];
        S[src.weighted(&[20, 5, 2, 2, 1, 1, 1, 2, 1, 1, 1, 1, 1, 1, 1, 1])]
    }
}

/// title = words of the vocabulary (mostly) joined by separators
pub fn gen_title(src: &mut Source, lang: &str, vocab: &[String], flavor: Flavor) -> String {
    let k = src.weighted(&[12, if lang == "en" || lang == "none" { 4 } else { 0 }, if flavor == Flavor::Adversarial { 3 } else { 0 }]);
    match k {
        1 => src.pick(ecommerce_titles()).to_string(),
        2 => gen_adversarial_text(src, lang, 24),
        _ => {
            let nw = src.weighted(&[0, 3, 4, 3, 1, 1]);
            let mut s = String::new();
            if src.chance(1, 12) {
                s.push_str(gen_sep(src, flavor));
            }
            for i in 0..nw {
                if i > 0 {
                    s.push_str(gen_sep(src, flavor));
                }
                if !vocab.is_empty() && src.chance(3, 4) {
                    s.push_str(src.pick(vocab).as_str());
                } else {
                    s.push_str(&gen_word(src, lang, flavor));
                }
            }
            if src.chance(1, 12) {
                s.push_str(gen_sep(src, flavor));
            }
            s
        }
    }
}

pub const ODD_CHARS: &[char] = &[
    '\0', '\u{1}', '\u{7f}', '\u{85}', '\u{a0}', '\u{200b}', '\u{2028}', '\u{feff}', '\u{301}', '\u{308}', '\u{327}', '\u{303}',
    '\u{306}', 'ǅ', 'İ', 'ı', 'ﬁ', '²', '½', 'Ⅷ', 'ⅷ', 'ℂ', 'ϒ', '𝐀', '😀', '𐐀', '𐐨', 'ß', 'ẞ', 'œ', 'Æ', 'ø', 'ё', 'Ё', 'й', 'ς', 'Σ',
    '\'', '"', '/', '+', '_', '&', '(', ')', '—', '…', '‼', '-', '.', ',', '!', ' ', '\t', '\n', '漢', 'ا', '़', 'ก', '①', '٣',
    // every character of the splitter's punctuation list
    ':', ';', '?', '\u{2011}', '\u{2012}', '\u{2013}', '\u{2047}', '\u{2048}', '\u{2049}',
    // invisible format characters, more spaces
    '\u{ad}', '\u{200c}', '\u{200d}', '\u{2060}', '\u{2009}', '\u{3000}', '\u{202f}',
];

/// letters of other scripts (1-, 2-, 3- and 4-byte encodings): words made of them
pub const SCRIPTS: &[&str] = &[
    "αβγδεζηθικλμνξοπρστυφχψω",
    "אבגדהוזחטיכלמנסעפצקרשת",
    "ابتثجحخدذرزسشصضطظعغفقكلمنهوي",
    "कखगघचछजझटठडढणतथदधनपफबभमयरलवशषसह",
    "กขคงจฉชซญดตถทธนบปผฝพฟภมยรลวศษสหอ",
    "あいうえおかきくけこさしすせそたちつてとなにぬねのはひふへほ",
    "アイウエオカキクケコサシスセソタチツテトナニヌネノハヒフヘホーーー",
    "ｌｅｄｕｓｂｈｗａｏ２０ＬＥＤＵＳＢ",
    "åäöabdeklmnrstÅÄÖ",
    "一二三四五六七八九十百千万円日月火水木金土年時分",
    "가나다라마바사아자차카타파하",
    "აბგდევზთიკლმნოპჟრსტუფქღყშჩცძწჭხჯჰ",
    "𐐨𐐩𐐪𐐫𐐬𐐭𐐮𐐯𐐰𐐱𐐲𐐳𐐴𐐵𐐶𐐷",
    "𝐚𝐛𝐜𝐝𝐞𝐟𝐠𝐡𝐢𝐣𝐤𝐥𝐦",
];

/// a word of `n` letters of one non-Latin script
pub fn gen_script_word(src: &mut Source, n: usize) -> String {
    let alpha: Vec<char> = src.pick(SCRIPTS).chars().collect();
    let k = src.range(2, alpha.len());
    (0..n).map(|_| alpha[src.below(k)]).collect()
}

pub fn gen_any_char(src: &mut Source) -> char {
    loop {
        let v = match src.weighted(&[4, 3, 2, 1]) {
            0 => src.below(0x250),
            1 => src.below(0x3000),
            2 => src.below(0x11000),
            _ => src.below(0x110000),
        } as u32;
        if let Some(c) = std::char::from_u32(v) {
            // U+E000 / U+E001 are the harness's sentinel highlight markers
            if c != '\u{E000}' && c != '\u{E001}' {
                return c;
            }
        }
    }
}

/// arbitrary text: letters of the language mixed with odd characters and uniformly drawn scalars
pub fn gen_adversarial_text(src: &mut Source, lang: &str, maxlen: usize) -> String {
    let n = src.below(maxlen + 1);
    let mut s = String::new();
    let plain = plain_letters(lang);
    let script: Vec<char> = src.pick(SCRIPTS).chars().collect();
    for _ in 0..n {
        match src.weighted(&[12, 3, 4, 3, 1, 1]) {
            5 => s.push(*src.pick(&script)),
            0 => s.push(*src.pick(&plain[..8])),
            1 => s.push(' '),
            2 => gen_letter(src, lang, &mut s, true),
            3 => s.push(*src.pick(ODD_CHARS)),
            _ => s.push(gen_any_char(src)),
        }
    }
    s
}

/// one edit applied to a char vector (letters of the language); kind: 0 del 1 ins 2 sub 3 transpose
pub fn gen_edit(src: &mut Source, lang: &str, w: &mut Vec<char>) {
    if w.is_empty() {
        return;
    }
    let plain = plain_letters(lang);
    let k = src.below(w.len());
    match src.below(4) {
        0 => {
            w.remove(k);
        }
        1 => w.insert(k, *src.pick(&plain)),
        2 => w[k] = *src.pick(&plain),
        _ => {
            if k + 1 < w.len() {
                w.swap(k, k + 1);
            }
        }
    }
}

/// A query related to the given titles by construction.
pub fn gen_query(src: &mut Source, lang: &str, titles: &[String], vocab: &[String], flavor: Flavor) -> String {
    let nonempty: Vec<&String> = titles.iter().filter(|t| !t.is_empty()).collect();
    let k = src.weighted(&[
        6,                                                // 0: substring of a title (cut anywhere), maybe edited
        4,                                                // 1: a vocabulary word or its prefix
        3,                                                // 2: title with a separator deleted / inserted (joined shapes)
        2,                                                // 3: two words of a title, possibly re-ordered
        2,                                                // 4: whole title
        1,                                                // 5: empty / separator only
        2,                                                // 6: unrelated
        if flavor == Flavor::Adversarial { 2 } else { 0 }, // 7: adversarial text
    ]);
    if nonempty.is_empty() && matches!(k, 0 | 2 | 3 | 4) {
        return gen_word(src, lang, flavor);
    }
    match k {
        0 => {
            let t: Vec<char> = src.pick(&nonempty).chars().collect();
            let a = if src.chance(1, 3) { src.below(t.len()) } else { 0 };
            let b = a + 1 + src.below(t.len() - a);
            let mut q: Vec<char> = t[a..b].to_vec();
            let edits = src.weighted(&[3, 2, 1]);
            for _ in 0..edits {
                gen_edit(src, lang, &mut q);
            }
            q.into_iter().collect()
        }
        1 => {
            let w: Vec<char> = if vocab.is_empty() { gen_word(src, lang, flavor).chars().collect() } else { src.pick(vocab).chars().collect() };
            let mut q: Vec<char> = if src.chance(1, 2) { w[..1 + src.below(w.len())].to_vec() } else { w };
            if src.chance(1, 4) {
                gen_edit(src, lang, &mut q);
            }
            let mut s: String = q.into_iter().collect();
            if src.chance(1, 4) && !vocab.is_empty() {
                s.push(' ');
                s.push_str(src.pick(vocab).as_str());
            }
            if src.chance(1, 8) {
                s.push(' ');
            }
            s
        }
        2 => {
            let mut t: Vec<char> = src.pick(&nonempty).chars().collect();
            let seps: Vec<usize> = t.iter().enumerate().filter(|(_, c)| !c.is_alphanumeric()).map(|(i, _)| i).collect();
            if !seps.is_empty() && src.chance(2, 3) {
                // delete one separator run member: "t-shirt" -> "tshirt"
                let i = *src.pick(&seps);
                t.remove(i);
            } else {
                let i = src.below(t.len() + 1);
                t.insert(i, *src.pick(&[' ', '-', ' ']));
            }
            if src.chance(1, 3) {
                gen_edit(src, lang, &mut t);
            }
            if src.chance(1, 3) {
                let n = 1 + src.below(t.len().max(1));
                t.truncate(n);
            }
            t.into_iter().collect()
        }
        3 => {
            let t = src.pick(&nonempty);
            let ws: Vec<&str> = t.split(|c: char| !c.is_alphanumeric()).filter(|w| !w.is_empty()).collect();
            if ws.is_empty() {
                return t.to_string();
            }
            let a = *src.pick(&ws);
            let b = *src.pick(&ws);
            format!("{} {}", a, b)
        }
        4 => src.pick(&nonempty).to_string(),
        5 => src.pick(&["", " ", "-", "  ", "' ", "\0", "+ -", ".", "\u{301}"]).to_string(),
        6 => {
            // unrelated: other script / rare letters
            let alpha: Vec<char> = if is_cyr(lang) { "qwxzvj".chars().collect() } else { "щъэюжф".chars().collect() };
            let n = src.range(1, 7);
            (0..n).map(|_| *src.pick(&alpha)).collect()
        }
        _ => gen_adversarial_text(src, lang, 16),
    }
}

pub fn gen_rating(src: &mut Source) -> usize {
    match src.weighted(&[5, 3, 1, 1]) {
        0 => src.below(5),
        1 => src.below(1000),
        2 => src.below(1usize << 31),
        _ => *src.pick(&[0usize, 1, (1usize << 31) - 1, (1usize << 31) - 2, 1 << 30]),
    }
}

/// n pairwise distinct ratings in random order
pub fn gen_distinct_ratings(src: &mut Source, n: usize) -> Vec<usize> {
    let step = src.range(1, 9);
    let base = src.below(50);
    let mut v: Vec<usize> = (0..n).map(|k| base + k * step + if step > 1 { src.below(step) } else { 0 }).collect();
    // Fisher-Yates
    for k in (1..n).rev() {
        let j = src.below(k + 1);
        v.swap(k, j);
    }
    v
}

pub fn gen_limit(src: &mut Source, nrec: usize) -> usize {
    match src.weighted(&[6, 4, 2, 1]) {
        0 => src.below(nrec + 3),
        1 => *src.pick(&[10usize, 1, 2, 3, 0]),
        2 => src.below(8),
        _ => *src.pick(&[65535usize, 65536, 32768, 1000]),
    }
}

pub fn gen_marker(src: &mut Source, titles: &[String]) -> String {
    match src.weighted(&[4, 2, 2, 2, 1, 1, 1]) {
        0 => src.pick(&["[", "]", "<", ">", "{{", "}}", "<b>", "</b>", "*", "\u{1b}[1m", "\u{1b}[0m", "\t", "\n", "«\u{a0}", "\u{a0}»", ">> ", " <<", " "]).to_string(),
        1 => String::new(),
        2 => {
            // a character (or word) occurring in a title
            let t: Vec<char> = titles.iter().flat_map(|t| t.chars()).collect();
            if t.is_empty() {
                "a".to_string()
            } else {
                let i = src.below(t.len());
                let n = 1 + src.below(3.min(t.len() - i));
                t[i..i + n].iter().collect()
            }
        }
        3 => src.pick(&["a", " ", "-", "e", "\u{301}", "ss"]).to_string(),
        4 => "\0".to_string(),
        5 => "x\0y".to_string(),
        _ => {
            let n = src.range(1, 4);
            (0..n).map(|_| gen_any_char(src)).collect()
        }
    }
}

/// (id, title, rating)
pub type Rec = (usize, String, usize);

pub fn build_store(lang: &str, recs: &[Rec], limit: usize) -> Store {
    let mut store = Store::new();
    store.lang = lang_of(lang);
    store.limit = limit;
    for (id, t, r) in recs {
        store.add(Record::new(*id, t, *r, &store.lang));
    }
    store
}

pub fn search(store: &Store, q: &str) -> Vec<(usize, String)> {
    let query = tokenize_query(q, &store.lang);
    store.search(&query.to_ref()).into_iter().map(|r| (r.id, r.title)).collect()
}

pub fn shuffle<T>(src: &mut Source, v: &mut Vec<T>) {
    for k in (1..v.len()).rev() {
        let j = src.below(k + 1);
        v.swap(k, j);
    }
}

/// normalise a word with the PINNED tables only (compose, fold, lower-case) - no library call
pub fn pinned_normalise(lang: &str, w: &str) -> String {
    let cs: Vec<char> = w.chars().collect();
    let mut composed = String::new();
    let mut i = 0;
    while i < cs.len() {
        if i + 1 < cs.len() {
            let pair: String = [cs[i], cs[i + 1]].iter().collect();
            if let Some((_, c)) = tables::compose_pairs(lang).iter().find(|(d, _)| *d == pair) {
                composed.push_str(c);
                i += 2;
                continue;
            }
        }
        composed.push(cs[i]);
        i += 1;
    }
    let mut out = String::new();
    for c in composed.chars() {
        match fold_of(lang, c) {
            Some(f) => out.push_str(f),
            None => out.push(c),
        }
    }
    out.to_lowercase()
}

/// is this (single-token) word a function word of the language according to the pinned table?
pub fn is_pinned_function(lang: &str, w: &str) -> bool {
    let n = pinned_normalise(lang, w);
    tables::func_words(lang).iter().any(|f| pinned_normalise(lang, f) == n || f.to_lowercase() == w.to_lowercase())
}

/// May typed text legitimately tokenise to something else than the characters it was cut from?
/// Only when a cut can separate a base letter from its mark, split an expanding letter, or leave
/// a non-alphanumeric character at a word edge. Anything else must be probed, not skipped.
pub fn retyping_may_differ(words: &[&[char]], typed_text: &str) -> bool {
    // marks: the general combining block plus whatever any (shipped or custom) table composes with
    let custom_mark = |c: char| tables::COMPOSE_XX.iter().chain(tables::COMPOSE_SV.iter()).any(|(d, _)| d.chars().nth(1) == Some(c));
    typed_text.chars().any(|c| (0x300..0x370).contains(&(c as u32)) || custom_mark(c) || "ßẞœæøŒÆØ\0".contains(c))
        || words.iter().any(|w| w.is_empty() || !w[0].is_alphanumeric() || !w[w.len() - 1].is_alphanumeric())
}
