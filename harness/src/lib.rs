pub fn x(){}
