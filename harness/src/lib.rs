//! lsverif: property-based testing / fuzzing harness for thaumant/lucid-suggest (see /verif/DESIGN.md)
pub mod core;
pub mod engine;
pub mod fuzz;
pub mod gen;
pub mod model;
pub mod props;
pub mod source;
pub mod tables;
pub mod world;
