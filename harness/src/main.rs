fn main(){ println!("{}", serde_json::json!({"a":1})); }
