use lsverif::core::Tier;
use lsverif::engine;
use lsverif::props::registry;

fn main() {
    let args: Vec<String> = std::env::args().collect();
    let reg = registry();
    let code = match args.get(1).map(|s| s.as_str()) {
        Some("check") => {
            let id = args.get(2).cloned().unwrap_or_default();
            let tier = args.iter().position(|a| a == "--tier").and_then(|i| args.get(i + 1)).map(|s| Tier::parse(s)).unwrap_or(Tier::Quick);
            engine::check_main(&reg, &id, tier)
        }
        Some("worker") => engine::worker_main(&reg, &args[2..]),
        Some("probe") => engine::probe_main(&reg, &args[2..]),
        Some("replay") => engine::replay_main(&reg, &args[2]),
        Some("choices") => engine::choices_main(&reg, &args[2..]),
        Some("describe") => engine::describe_main(&reg, &args[2..]),
        Some("corpus") => lsverif::fuzz::corpus_main(&reg, &args[2..]),
        Some("fuzzspaces") => {
            // indices of the randomly searched spaces of a property (the ones worth fuzzing)
            if let Some(p) = reg.get(&args[2]) {
                for (i, sp) in p.spaces.iter().enumerate() {
                    if matches!((sp.plan)(Tier::Thorough), lsverif::core::Plan::Random(_)) {
                        println!("{} {}", i, sp.name);
                    }
                }
            }
            0
        }
        Some("bytes2choices") => {
            let p = reg.get(&args[2]).expect("prop");
            let si: usize = args[3].parse().unwrap();
            let data = std::fs::read(&args[4]).unwrap_or_default();
            let mut src = lsverif::source::Source::bytes(&data);
            let _ = (p.spaces[si].decode)(&mut src);
            println!("{}", src.rec.iter().map(|v| v.to_string()).collect::<Vec<_>>().join(" "));
            0
        }
        Some("shrinkfile") => engine::shrinkfile_main(&reg, &args[2..]),
        Some("list") => {
            for p in &reg.props {
                println!("{} {}", p.id, p.title);
            }
            0
        }
        _ => {
            eprintln!("usage: lsverif check <Cxx> [--tier quick|thorough] | replay <file> | list");
            2
        }
    };
    std::process::exit(code);
}
