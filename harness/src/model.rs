//! Independent reference models used as oracles.

use lucid_suggest_core::*;
use std::collections::{BTreeMap, BTreeSet};

/// sentinel highlight markers: private-use characters no generator ever puts in a title
pub const SL: char = '\u{E000}';
pub const SR: char = '\u{E001}';

pub fn is_punct(ch: char) -> bool {
    "&(),:;.!?-\u{2011}\u{2012}\u{2013}\u{2014}\u{2026}\u{203C}\u{2047}\u{2048}\u{2049}".contains(ch)
}

pub fn is_split_char(ch: char) -> bool {
    ch.is_whitespace() || ch.is_control() || is_punct(ch)
}

/// the gram set the index is documented to use: 1-letter start, 2-letter start, every 3-window
pub fn grams(chars: &[char]) -> Vec<[char; 3]> {
    let mut g = Vec::new();
    if !chars.is_empty() {
        g.push([chars[0], '\0', '\0']);
    }
    if chars.len() >= 2 {
        g.push([chars[0], chars[1], '\0']);
    }
    for w in chars.windows(3) {
        g.push([w[0], w[1], w[2]]);
    }
    g
}

pub fn gramset(t: &TextOwn) -> BTreeSet<[char; 3]> {
    t.words.iter().flat_map(|w| grams(&t.chars[w.slice.0..w.slice.1])).collect()
}

/// (base, mark) -> composed, for the pairs the language itself reports. Deriving the inventory
/// from the language keeps C02/C15 sound if a language gains a pair.
pub fn compose_table_for(code: &str) -> &'static BTreeMap<(char, char), char> {
    use std::sync::OnceLock;
    static T: OnceLock<Vec<(&'static str, BTreeMap<(char, char), char>)>> = OnceLock::new();
    let all = T.get_or_init(|| {
        crate::gen::LANGS_EXT
            .iter()
            .map(|c| {
                // pairs the language itself reports (sound if a language gains a pair) ...
                let mut t = compose_table(&crate::gen::lang_of(c));
                // ... but WHAT a known pair composes to is pinned: the canonical precomposed letter
                // (a table that starts answering with a look-alike must be noticed)
                for (d, pc) in crate::tables::compose_pairs(c) {
                    let mut it = d.chars();
                    if let (Some(b), Some(m), Some(x)) = (it.next(), it.next(), pc.chars().next()) {
                        t.insert((b, m), x);
                    }
                }
                (*c, t)
            })
            .collect()
    });
    &all.iter().find(|(c, _)| *c == code).expect("lang").1
}

pub fn compose_table(l: &Lang) -> BTreeMap<(char, char), char> {
    let mut t = BTreeMap::new();
    let bases: Vec<char> = "abcdefghijklmnopqrstuvwxyzABCDEFGHIJKLMNOPQRSTUVWXYZабвгдеёжзийклмнопрстуфхцчшщъыьэюяАБВГДЕЁЖЗИЙКЛМНОПРСТУФХЦЧШЩЪЫЬЭЮЯ".chars().collect();
    for &b in &bases {
        for m in 0x300u32..0x370 {
            let m = std::char::from_u32(m).unwrap();
            if let Some(v) = l.unicode_compose(&[b, m]) {
                if v.len() == 1 {
                    t.insert((b, m), v[0]);
                }
            }
        }
    }
    t
}

/// left-to-right longest-match composition
pub fn compose_model(t: &BTreeMap<(char, char), char>, s: &[char]) -> Vec<char> {
    let mut o = Vec::new();
    let mut i = 0;
    while i < s.len() {
        if i + 1 < s.len() {
            if let Some(&c) = t.get(&(s[i], s[i + 1])) {
                o.push(c);
                i += 2;
                continue;
            }
        }
        o.push(s[i]);
        i += 1;
    }
    o
}

#[derive(Debug, Clone)]
pub struct Parsed {
    /// spans in `source` coordinates: (start, end_min, end_max). NUL padding makes the close
    /// marker position ambiguous: it lies somewhere in [end_min, end_max].
    pub spans: Vec<(usize, usize, usize)>,
    /// returned title with the sentinels removed
    pub plain: String,
    /// segments (text, highlighted) for re-rendering with other markers
    pub segs: Vec<(String, bool)>,
}

/// Lock-step walk of a sentinel-highlighted title against the tokenised `source` array.
/// Err(reason) is a structural failure (nesting, unbalanced, text altered).
pub fn parse_hl(out: &str, source: &[char]) -> Result<Parsed, String> {
    let mut spans = Vec::new();
    let mut plain = String::new();
    let mut segs: Vec<(String, bool)> = Vec::new();
    let mut curseg = String::new();
    let mut cur = 0usize;
    let mut open: Option<usize> = None;
    for ch in out.chars() {
        if ch == SL {
            if open.is_some() {
                return Err("nested-open".into());
            }
            // skip padding before the span start: a span starts at a real character
            while cur < source.len() && source[cur] == '\0' {
                cur += 1;
            }
            open = Some(cur);
            if !curseg.is_empty() {
                segs.push((std::mem::take(&mut curseg), false));
            }
        } else if ch == SR {
            match open.take() {
                None => return Err("close-without-open".into()),
                Some(st) => {
                    let mut emax = cur;
                    while emax < source.len() && source[emax] == '\0' {
                        emax += 1;
                    }
                    spans.push((st, cur, emax));
                    segs.push((std::mem::take(&mut curseg), true));
                }
            }
        } else {
            while cur < source.len() && source[cur] == '\0' {
                cur += 1;
            }
            if cur >= source.len() || source[cur] != ch {
                return Err(format!("text-altered at source[{}]: returned {:?}", cur, ch));
            }
            plain.push(ch);
            curseg.push(ch);
            cur += 1;
        }
    }
    if open.is_some() {
        return Err("unclosed".into());
    }
    while cur < source.len() && source[cur] == '\0' {
        cur += 1;
    }
    if cur != source.len() {
        return Err("text-truncated".into());
    }
    if !curseg.is_empty() {
        segs.push((curseg, false));
    }
    Ok(Parsed { spans, plain, segs })
}

pub fn render(segs: &[(String, bool)], l: &str, r: &str) -> String {
    let mut s = String::new();
    for (t, hl) in segs {
        if *hl {
            s.push_str(l);
            s.push_str(t);
            s.push_str(r);
        } else {
            s.push_str(t);
        }
    }
    s.retain(|c| c != '\0');
    s
}

pub fn lev(a: &[char], b: &[char]) -> usize {
    let mut d: Vec<Vec<usize>> = vec![vec![0; b.len() + 1]; a.len() + 1];
    for i in 0..=a.len() {
        d[i][0] = i;
    }
    for j in 0..=b.len() {
        d[0][j] = j;
    }
    for i in 1..=a.len() {
        for j in 1..=b.len() {
            let c = if a[i - 1] == b[j - 1] { 0 } else { 1 };
            d[i][j] = (d[i - 1][j] + 1).min(d[i][j - 1] + 1).min(d[i - 1][j - 1] + c);
        }
    }
    d[a.len()][b.len()]
}

/// unrestricted Damerau-Levenshtein (Lowrance-Wagner)
pub fn dl(a: &[char], b: &[char]) -> usize {
    let inf = a.len() + b.len();
    let mut d = vec![vec![0usize; b.len() + 2]; a.len() + 2];
    d[0][0] = inf;
    for i in 0..=a.len() {
        d[i + 1][0] = inf;
        d[i + 1][1] = i;
    }
    for j in 0..=b.len() {
        d[0][j + 1] = inf;
        d[1][j + 1] = j;
    }
    let mut da: BTreeMap<char, usize> = BTreeMap::new();
    for i in 1..=a.len() {
        let mut db = 0;
        for j in 1..=b.len() {
            let i1 = *da.get(&b[j - 1]).unwrap_or(&0);
            let j1 = db;
            let mut cost = 1;
            if a[i - 1] == b[j - 1] {
                cost = 0;
                db = j;
            }
            d[i + 1][j + 1] = (d[i][j] + cost).min(d[i + 1][j] + 1).min(d[i][j + 1] + 1).min(d[i1][j1] + (i - i1 - 1) + 1 + (j - j1 - 1));
        }
        da.insert(a[i - 1], i);
    }
    d[a.len() + 1][b.len() + 1]
}

pub fn nz(x: &[char]) -> String {
    x.iter().filter(|&&c| c != '\0').collect()
}

pub fn word_chars<'a>(t: &'a TextOwn, i: usize) -> &'a [char] {
    let w = &t.words[i];
    &t.chars[w.slice.0..w.slice.1]
}

pub fn fnv_str(h: &mut u64, s: &str) {
    for b in s.bytes() {
        *h ^= b as u64;
        *h = h.wrapping_mul(0x100000001b3);
    }
    *h ^= 0xff;
    *h = h.wrapping_mul(0x100000001b3);
}
