//! C01 - indexing and searching never panic/abort/trap; checked build == shipping build.

use crate::core::*;
use crate::gen::*;
use crate::model::fnv_str;
use crate::source::Source;
use lucid_suggest_core as lsc;
use serde_json::{json, Value};

#[derive(Clone, Debug, Hash, PartialEq)]
pub enum Op {
    Add { id: usize, title: String, rating: usize },
    Limit(usize),
    Markers(String, String),
    Search(String),
    Tokenize(String),
}

#[derive(Clone, Debug, Hash)]
pub struct C01Case {
    pub lang: &'static str,
    pub via_registry: bool,
    /// registry: do not destroy the store at the end (it dies with its thread);
    /// Store API: build the store on another thread and hand it over before the first search
    pub variant: bool,
    pub ops: Vec<Op>,
}

fn gen_long_word(src: &mut Source, lang: &str) -> String {
    let plain = plain_letters(lang);
    let n = *src.pick(&[15usize, 19, 20, 21, 22, 23, 31, 34, 50, 63, 64, 65, 77, 105]) + src.below(3);
    if src.chance(1, 3) {
        // an unbroken run of letters of another script (multi-byte encodings)
        let n = *src.pick(&[8usize, 16, 17, 21, 22, 25, 32, 33, 40, 64, 65]) + src.below(2);
        return gen_script_word(src, n);
    }
    let k = src.range(2, 8);
    (0..n).map(|_| plain[src.below(k)]).collect()
}

pub fn decode(src: &mut Source) -> Box<dyn Case> {
    let lang = gen_lang(src);
    let via_registry = src.chance(1, 4);
    let variant = src.chance(1, 4);
    let flavor = if src.chance(2, 3) { Flavor::Adversarial } else { Flavor::Clean };
    let vocab = gen_vocab(src, lang, flavor, 2, 6);
    let mut ops: Vec<Op> = Vec::new();
    let mut titles: Vec<String> = Vec::new();
    let mut next_id = 1usize;
    // always start with one record so that searches have something to chew on
    // "more?"-style loop: deleting one op's draws from the choice vector removes exactly that op
    while ops.len() < 12 && (ops.len() < 2 || src.chance(5, 6)) {
        let kind = if ops.is_empty() { 0 } else { src.weighted(&[5, 6, 1, 1, 1]) };
        match kind {
            0 => {
                let title = match src.weighted(&[10, 1, 1]) {
                    0 => gen_title(src, lang, &vocab, flavor),
                    1 => {
                        // a long word (matrix growth) next to ordinary ones
                        let mut t = gen_long_word(src, lang);
                        t.push(' ');
                        t.push_str(&gen_title(src, lang, &vocab, flavor));
                        t
                    }
                    _ => {
                        // a long title
                        let n = src.range(20, 300);
                        let mut t = String::new();
                        for _ in 0..n {
                            t.push_str(src.pick(&vocab).as_str());
                            t.push_str(gen_sep(src, flavor));
                        }
                        t
                    }
                };
                let id = if src.chance(1, 10) { src.below(next_id + 1) } else { next_id };
                next_id += 1;
                titles.push(title.clone());
                ops.push(Op::Add { id, title, rating: gen_rating(src) });
            }
            1 => {
                let q = if src.chance(1, 12) && !titles.is_empty() {
                    // long word, edited
                    let t = src.pick(&titles).clone();
                    let mut w: Vec<char> = t.split(' ').next().unwrap_or("").chars().collect();
                    gen_edit(src, lang, &mut w);
                    w.into_iter().collect()
                } else {
                    gen_query(src, lang, &titles, &vocab, flavor)
                };
                ops.push(Op::Search(q));
            }
            2 => ops.push(Op::Limit(gen_limit(src, titles.len()))),
            3 => {
                let l = gen_marker(src, &titles);
                let r = gen_marker(src, &titles);
                ops.push(Op::Markers(l, r));
            }
            _ => ops.push(Op::Tokenize(gen_adversarial_text(src, lang, 40))),
        }
    }
    if !ops.iter().any(|o| matches!(o, Op::Search(_))) {
        let q = gen_query(src, lang, &titles, &vocab, flavor);
        ops.push(Op::Search(q));
    }
    Box::new(C01Case { lang, via_registry, variant, ops })
}

/// `Store` holds only owned data behind `RefCell`s; handing a whole store to another thread is
/// what a loader/worker split does (`Store` is `Send`: the compiler checks it here).
struct SendStore(lsc::Store);

pub struct RunInfo {
    pub digest: u64,
    pub searches: u64,
    pub hits: u64,
    pub word_query_hits: u64,
}

fn hash_text(h: &mut u64, t: &lsc::TextOwn) {
    fnv_str(h, &t.source.iter().collect::<String>());
    fnv_str(h, &t.chars.iter().collect::<String>());
    for w in &t.words {
        fnv_str(h, &format!("{} {} {} {} {}", w.offset, w.slice.0, w.slice.1, w.stem, w.fin));
    }
}

pub fn run(case: &C01Case) -> RunInfo {
    let mut h: u64 = 0xcbf29ce484222325;
    let mut info = RunInfo { digest: 0, searches: 0, hits: 0, word_query_hits: 0 };
    let lang = lang_of(case.lang);
    if case.via_registry {
        let sid = 7usize;
        lsc::create_store(sid, lang_of(case.lang));
        for op in &case.ops {
            match op {
                Op::Add { id, title, rating } => lsc::add_record(sid, *id, title, *rating),
                Op::Limit(n) => lsc::set_limit(sid, *n),
                Op::Markers(l, r) => lsc::highlight_with(sid, (l, r)),
                Op::Search(q) => {
                    lsc::run_search(sid, q);
                    let words = lsc::tokenize_query(q, &lang).words.len();
                    lsc::using_results(sid, |res| {
                        info.searches += 1;
                        info.hits += res.len() as u64;
                        if words > 0 {
                            info.word_query_hits += res.len() as u64;
                        }
                        for r in res.iter() {
                            fnv_str(&mut h, &r.id.to_string());
                            fnv_str(&mut h, &r.title);
                        }
                        fnv_str(&mut h, "|");
                    });
                }
                Op::Tokenize(t) => hash_text(&mut h, &lsc::tokenize_query(t, &lang)),
            }
        }
        if !case.variant {
            lsc::destroy_store(sid);
        }
    } else {
        let mut store = lsc::Store::new();
        store.lang = lang_of(case.lang);
        let mut skip = 0usize;
        if case.variant {
            // the leading adds happen on a loader thread; the store is then handed to this one
            let lead: Vec<Op> = case.ops.iter().take_while(|o| matches!(o, Op::Add { .. })).cloned().collect();
            skip = lead.len();
            let lang_code = case.lang;
            let built = std::thread::spawn(move || {
                let mut st = lsc::Store::new();
                st.lang = lang_of(lang_code);
                for op in &lead {
                    if let Op::Add { id, title, rating } = op {
                        let r = lsc::Record::new(*id, title, *rating, &st.lang);
                        st.add(r);
                    }
                }
                SendStore(st)
            })
            .join();
            match built {
                Ok(s) => store = s.0,
                Err(_) => panic!("loader thread panicked"),
            }
        }
        for op in case.ops.iter().skip(skip) {
            match op {
                Op::Add { id, title, rating } => {
                    let r = lsc::Record::new(*id, title, *rating, &store.lang);
                    store.add(r);
                }
                Op::Limit(n) => store.limit = *n,
                Op::Markers(l, r) => store.highlight_with((l, r)),
                Op::Search(q) => {
                    let query = lsc::tokenize_query(q, &store.lang);
                    let res = store.search(&query.to_ref());
                    info.searches += 1;
                    info.hits += res.len() as u64;
                    if !query.words.is_empty() {
                        info.word_query_hits += res.len() as u64;
                    }
                    for r in res.iter() {
                        fnv_str(&mut h, &r.id.to_string());
                        fnv_str(&mut h, &r.title);
                    }
                    fnv_str(&mut h, "|");
                }
                Op::Tokenize(t) => hash_text(&mut h, &lsc::tokenize_query(t, &lang)),
            }
        }
    }
    info.digest = h;
    info
}

pub fn op_json(op: &Op) -> Value {
    match op {
        Op::Add { id, title, rating } => json!({"add": show(title), "id": id, "rating": rating}),
        Op::Limit(n) => json!({"limit": n}),
        Op::Markers(l, r) => json!({"markers": [show(l), show(r)]}),
        Op::Search(q) => json!({"search": show(q)}),
        Op::Tokenize(t) => json!({"tokenize_query": show(t)}),
    }
}

impl Case for C01Case {
    fn describe(&self) -> Value {
        json!({"lang": self.lang, "via_registry": self.via_registry, "variant(no destroy / loader thread)": self.variant, "ops": self.ops.iter().map(op_json).collect::<Vec<_>>()})
    }
    fn key(&self) -> u64 {
        hash64(self)
    }
    fn digest(&self) -> Option<u64> {
        Some(run(self).digest)
    }
    fn check(&self, ctx: &mut Ctx) -> Result<(), Violation> {
        // oracle 1: every call returns (a panic unwinds out of here and is reported by the engine,
        // an abort kills the worker and is attributed through the in-flight file)
        let info = run(self);
        ctx.digest = Some(info.digest);
        ctx.count("searches", info.searches);
        ctx.count("hits", info.hits);
        if info.word_query_hits > 0 {
            ctx.nontrivial();
        }
        let all_text = || self.ops.iter().map(|o| match o {
            Op::Add { title, .. } => title.as_str(),
            Op::Search(q) => q.as_str(),
            Op::Tokenize(t) => t.as_str(),
            _ => "",
        });
        ctx.label_if(all_text().any(|t| t.contains('\0')), "nul-in-input");
        ctx.label_if(all_text().any(|t| t.chars().any(|c| "ßẞœæøŒÆØ".contains(c))), "expanding-letter");
        ctx.label_if(all_text().any(|t| t.chars().any(|c| c as u32 > 0xFFFF)), "astral-char");
        ctx.label_if(all_text().any(|t| t.chars().count() > 200), "long-title");
        ctx.label_if(all_text().any(|t| t.split(|c: char| !c.is_alphanumeric()).any(|w| w.chars().count() > 20)), "word>20");
        ctx.label_if(self.ops.iter().any(|o| matches!(o, Op::Limit(n) if *n >= 32768)), "limit>=2^15");
        ctx.label_if(self.ops.iter().any(|o| matches!(o, Op::Limit(0))), "limit-0");
        ctx.label_if(self.via_registry, "via-registry");
        ctx.label_if(self.via_registry && self.variant, "store-left-alive-at-thread-exit");
        ctx.label_if(!self.via_registry && self.variant, "built-on-loader-thread");
        ctx.label_if(info.word_query_hits > 0, "word-query-with-hits");
        Ok(())
    }
}

pub fn def() -> PropDef {
    PropDef {
        id: "C01",
        title: "Indexing and searching never panic, abort or trap on any input",
        rule: "random histories (2-12 ops) of add / set-limit / set-markers / search / tokenize_query on one store (Store API, or the registry API in 1/4 of cases) over all 7 languages, adversarial Unicode titles and queries derived from the stored titles (separator deleted/inserted, typo, prefix, substring), ratings < 2^31, limits in [0, 2^16]; the decoder never consults the library, so the shipping-build leg regenerates identical cases from the same seeds. Non-trivial = the history contains a search whose query has >= 1 word and returns >= 1 hit; distinct = distinct hash of the decoded history",
        assumptions: &[
            "a hang is detected by a 60 s per-case watchdog and reported as INCONCLUSIVE (exit 2), not decided",
            "allocation blow-ups are decided only up to the 3 GiB address-space cap per worker",
            "shipping build = cargo profile with opt-level 3, no overflow checks, no debug assertions, hooks off, same rustc",
        ],
        spaces: vec![Space { name: "history", decode, plan: |t| Plan::Random(t.n(150_000, 3_000_000)) }],
        differential: true,
        floors: &[("searches", 1.0)],
    }
}
