//! C02 - hit titles are the stored titles, only decorated; ids are real; no NUL.

use crate::core::*;
use crate::gen::*;
use crate::model::*;
use crate::source::Source;
use crate::world::*;
use serde_json::{json, Value};

#[derive(Clone, Debug, Hash)]
pub struct C02Case {
    pub w: World,
    pub other: (String, String),
}

pub fn decode(src: &mut Source) -> Box<dyn Case> {
    let mut w = gen_world(src, WorldOpts { ext_langs: true, ..WorldOpts::highlight() });
    if src.chance(1, 5) {
        w.queries.push(src.pick(&["", " ", "-", "\0"]).to_string());
    }
    let titles: Vec<String> = w.recs.iter().map(|r| r.1.clone()).collect();
    let other = (gen_marker(src, &titles), gen_marker(src, &titles));
    w.markers = (SL.to_string(), SR.to_string());
    Box::new(C02Case { w, other })
}

impl Case for C02Case {
    fn describe(&self) -> Value {
        let mut d = self.w.describe();
        d["markers"] = json!("sentinels U+E000/U+E001");
        d["second_marker_pair"] = json!([show(&self.other.0), show(&self.other.1)]);
        d
    }
    fn key(&self) -> u64 {
        hash64(self)
    }
    fn check(&self, ctx: &mut Ctx) -> Result<(), Violation> {
        let w = &self.w;
        let table = compose_table_for(w.lang);
        let mut store = w.store();
        // composed, NUL-free form of every stored title (independent model)
        let expect: Vec<(usize, String)> = w.recs.iter().map(|(id, t, _)| {
            let cs: Vec<char> = t.chars().collect();
            (*id, compose_model(table, &cs).into_iter().filter(|&c| c != '\0').collect::<String>())
        }).collect();
        for (qi, q) in w.queries.iter().enumerate() {
            // (for the first query the markers are the ones the world configured - sentinels - before
            // any clear / refill; they are not set again)
            if qi > 0 {
                store.highlight_with((&SL.to_string(), &SR.to_string()));
            }
            let hits = search(&store, q);
            store.highlight_with((&self.other.0, &self.other.1));
            let hits2 = search(&store, q);
            let info = |x: String| format!("lang={} query={:?} {}", w.lang, q, x);
            if hits2.len() != hits.len() || hits.iter().zip(hits2.iter()).any(|(a, b)| a.0 != b.0) {
                return ctx.fail("markers-change-hit-list", "", info(format!("ids with sentinels {:?}, with markers ({:?},{:?}) {:?}", hits.iter().map(|h| h.0).collect::<Vec<_>>(), self.other.0, self.other.1, hits2.iter().map(|h| h.0).collect::<Vec<_>>())));
            }
            for (k, (id, out)) in hits.iter().enumerate() {
                ctx.count("hits", 1);
                if !w.recs.iter().any(|r| r.0 == *id) {
                    return ctx.fail("id-not-added", "", info(format!("hit id {} was never added", id)));
                }
                if out.contains('\0') {
                    return ctx.fail("nul-in-title", "", info(format!("returned title {:?}", out)));
                }
                if hits2[k].1.contains('\0') {
                    return ctx.fail("nul-in-title", "", info(format!("returned title {:?} with markers ({:?},{:?})", hits2[k].1, self.other.0, self.other.1)));
                }
                // strip sentinels
                let mut segs: Vec<(String, bool)> = Vec::new();
                let mut cur = String::new();
                let mut open = false;
                let mut balanced = true;
                for ch in out.chars() {
                    if ch == SL {
                        if open { balanced = false; }
                        if !cur.is_empty() { segs.push((std::mem::take(&mut cur), false)); }
                        open = true;
                    } else if ch == SR {
                        if !open { balanced = false; }
                        segs.push((std::mem::take(&mut cur), true));
                        open = false;
                    } else {
                        cur.push(ch);
                    }
                }
                if open { balanced = false; }
                if !cur.is_empty() { segs.push((cur, false)); }
                let plain: String = segs.iter().map(|s| s.0.as_str()).collect();
                if !expect.iter().any(|(eid, e)| eid == id && *e == plain) {
                    let cands: Vec<&String> = expect.iter().filter(|(eid, _)| eid == id).map(|(_, e)| e).collect();
                    return ctx.fail("title-altered", "", info(format!("hit id {} returned {:?}; without markers {:?}; stored (composed, NUL-free) {:?}", id, out, plain, cands)));
                }
                if balanced {
                    let rendered = render(&segs, &self.other.0, &self.other.1);
                    if rendered != hits2[k].1 {
                        return ctx.fail("markers-change-more-than-markers", "", info(format!("with sentinels {:?}; with markers ({:?},{:?}) got {:?} expected {:?}", out, self.other.0, self.other.1, hits2[k].1, rendered)));
                    }
                }
                let nspans = segs.iter().filter(|s| s.1).count();
                let title = &w.recs.iter().find(|r| r.0 == *id).unwrap().1;
                let special = title.contains('\0') || title.chars().any(|c| "ßẞœæøŒÆØ".contains(c)) || plain.chars().count() < title.chars().filter(|&c| c != '\0').count()
                    || (!self.other.0.is_empty() && title.contains(&self.other.0)) || (!self.other.1.is_empty() && title.contains(&self.other.1));
                ctx.label_if(nspans > 0, "hit-with-span");
                ctx.label_if(nspans > 1, "multi-span");
                ctx.label_if(special && nspans > 0, "span-on-special-title");
                ctx.label_if(plain.chars().count() < title.chars().filter(|&c| c != '\0').count(), "composed-title");
                if nspans > 0 && special {
                    ctx.nontrivial();
                }
            }
        }
        ctx.label_if(self.other.0.is_empty() || self.other.1.is_empty(), "empty-marker");
        ctx.label_if(self.other.0 == self.other.1, "equal-markers");
        ctx.label_if(self.other.0.contains('\0') || self.other.1.contains('\0'), "nul-in-marker");
        let mut ids: Vec<usize> = w.recs.iter().map(|r| r.0).collect();
        ids.sort();
        ids.dedup();
        ctx.label_if(ids.len() < w.recs.len(), "duplicate-ids");
        Ok(())
    }
}

pub fn def() -> PropDef {
    PropDef {
        id: "C02",
        title: "Hit titles are the stored titles, only decorated; ids are real; no NUL",
        rule: "random worlds: 1-6 records with adversarial titles (expanding letters, decomposed accents, NUL/separators at edges, joined shapes; ids duplicated in ~1/12 of records), any limit, 2-3 queries related to the titles (or empty); each query searched with sentinel markers U+E000/U+E001 and with an arbitrary second pair (empty, multi-char, equal, occurring in titles, containing NUL). Oracle: sentinel-stripped title == own compose model of a stored title with that id, NULs dropped; second search == sentinel structure re-rendered with the second pair. Non-trivial = a hit with >= 1 span on a title containing an expanding or composed character, a NUL or a marker string; distinct = distinct world",
        assumptions: &["compose model = left-to-right longest match over the pairs the language itself reports", "titles never contain the sentinel characters (generator excludes them)"],
        spaces: vec![Space { name: "world", decode, plan: |t| Plan::Random(t.n(200_000, 3_000_000)) }],
        differential: false,
        floors: &[("hits", 0.5)],
    }
}
