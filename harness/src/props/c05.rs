//! C05 - no unrelated hits, and highlights never exceed what was typed.

use crate::core::*;
use crate::gen::*;
use crate::model::*;
use crate::source::Source;
use crate::world::*;
use lucid_suggest_core::tokenization::tokenize_record;
use lucid_suggest_core::*;
use serde_json::{json, Value};
use std::collections::BTreeSet;

#[derive(Clone, Debug, Hash)]
pub struct C05Case {
    pub w: World,
    /// limit set before each query (None = unchanged); includes 0, so that a search that may
    /// return nothing is followed by one that may
    pub limits: Vec<Option<usize>>,
}

pub fn decode(src: &mut Source) -> Box<dyn Case> {
    let mut w = if src.chance(1, 4) {
        crowded_world(src)
    } else {
        gen_world(src, WorldOpts { dup_ids: false, max_recs: 12, queries: 3, ..WorldOpts::highlight() })
    };
    w.markers = (SL.to_string(), SR.to_string());
    let limits = (0..w.queries.len()).map(|_| if src.chance(1, 4) { Some(*src.pick(&[0usize, 1, 2, 10, 3])) } else { None }).collect();
    Box::new(C05Case { w, limits })
}

/// many records over a tiny vocabulary and a small limit, queried several times in a row: the
/// candidate cap (10 x limit) is crossed and whatever one query leaves behind meets the next
fn crowded_world(src: &mut Source) -> World {
    let lang = gen_lang(src);
    let plain = plain_letters(lang);
    let k = src.range(3, 7);
    let nv = src.range(2, 5);
    let vocab: Vec<String> = (0..nv).map(|_| (0..src.range(2, 6)).map(|_| plain[src.below(k)]).collect()).collect();
    let limit = src.range(1, 3);
    let nrec = 10 * limit + src.range(1, 25);
    let recs: Vec<Rec> = (0..nrec)
        .map(|i| {
            let nw = src.range(1, 3);
            let t = (0..nw).map(|_| src.pick(&vocab).clone()).collect::<Vec<_>>().join(" ");
            (i + 1, t, src.below(50))
        })
        .collect();
    let nq = src.range(3, 5);
    let queries = (0..nq)
        .map(|_| match src.below(4) {
            0 => {
                // one letter: touches many records
                let w: Vec<char> = src.pick(&vocab).chars().collect();
                w[..1].iter().collect()
            }
            1 => src.pick(&vocab).clone(),
            2 => {
                // a typo that may leave no gram in common with anything
                let mut w: Vec<char> = src.pick(&vocab).chars().collect();
                if w.len() >= 2 {
                    w.swap(0, 1);
                }
                w.into_iter().collect()
            }
            _ => {
                // letters outside the vocabulary's alphabet
                let n = src.range(1, 4);
                (0..n).map(|_| plain[k + src.below(plain.len() - k)]).collect()
            }
        })
        .collect();
    World { lang, recs, limit, queries, markers: (SL.to_string(), SR.to_string()), refilled: false }
}

impl Case for C05Case {
    fn describe(&self) -> Value {
        let mut d = self.w.describe();
        d["markers"] = json!("sentinels U+E000/U+E001");
        d["limit_set_before_each_query"] = json!(self.limits);
        d
    }
    fn key(&self) -> u64 {
        hash64(self)
    }
    fn check(&self, ctx: &mut Ctx) -> Result<(), Violation> {
        let w = &self.w;
        let mut store = w.store();
        let l = lang_of(w.lang);
        let toks: Vec<TextOwn> = w.recs.iter().map(|r| tokenize_record(&r.1, &l)).collect();
        for (qi, q) in w.queries.iter().enumerate() {
            if let Some(Some(lim)) = self.limits.get(qi) {
                store.limit = *lim;
            }
            if !q.chars().any(|c| c.is_alphanumeric()) {
                let _ = search(&store, q);
                continue; // the property quantifies over queries with a letter or digit
            }
            let tq = tokenize_query(q, &l);
            // (a query with a letter or digit whose tokenisation has no word is not excused: its
            // gram set is empty, so every hit it returns fails the shared-gram clause)
            let qg: BTreeSet<[char; 3]> = gramset(&tq);
            let qalnum: BTreeSet<char> = tq.chars.iter().cloned().filter(|c| c.is_alphanumeric()).collect();
            let stretch = if tq.words.is_empty() { 0 } else { tq.words.last().unwrap().slice.1 - tq.words[0].slice.0 };
            let hits = search(&store, q);
            ctx.label_if(hits.is_empty(), "query-without-hits");
            ctx.label_if(w.recs.len() > 10 * w.limit && w.limit > 0, "store>10x-limit");
            for (id, out) in &hits {
                ctx.count("hits", 1);
                let ri = match w.recs.iter().position(|r| r.0 == *id) {
                    Some(i) => i,
                    None => continue,
                };
                let t = &toks[ri];
                let info = |x: String| format!("lang={} query={:?} title={:?} returned={:?} {}", w.lang, q, w.recs[ri].1, out, x);
                if gramset(t).intersection(&qg).next().is_none() {
                    return ctx.fail("no-shared-gram", "", info(format!("query grams {:?}", qg.iter().map(|g| g.iter().filter(|c| **c != '\0').collect::<String>()).collect::<Vec<_>>())));
                }
                let talnum: BTreeSet<char> = t.chars.iter().cloned().filter(|c| c.is_alphanumeric()).collect();
                if talnum.intersection(&qalnum).next().is_none() {
                    return ctx.fail("no-common-letter", "", info(String::new()));
                }
                if let Ok(p) = parse_hl(out, &t.source) {
                    for &(st, emin, _) in &p.spans {
                        if emin > st && emin - st > stretch + 1 {
                            return ctx.fail("span-longer-than-typed", "", info(format!("span {}..{} ({} normalised chars) but the query stretch is {}", st, emin, emin - st, stretch)));
                        }
                        let wl = t.words.iter().find(|wd| wd.slice.0 == st).map(|wd| wd.slice.1 - wd.slice.0).unwrap_or(0);
                        if emin - st < wl {
                            ctx.nontrivial();
                            ctx.label("span-shorter-than-word");
                        }
                    }
                }
            }
        }
        Ok(())
    }
}

// ------------------------------------------------------------------ exact-prefix sub-domain

#[derive(Clone, Debug, Hash)]
pub struct PrefixCase {
    pub lang: &'static str,
    pub title: String,
    pub others: Vec<Rec>,
}

pub fn decode_prefix(src: &mut Source) -> Box<dyn Case> {
    let lang = gen_lang(src);
    let mut word = match src.weighted(&[50, 20, 20, 1]) {
        3 => {
            // a very long single word (compound nouns, product codes): 50-110 letters
            let plain = plain_letters(lang);
            let n = src.range(50, 110);
            let k = src.range(3, 12);
            (0..n).map(|_| plain[src.below(k)]).collect()
        }
        0 => gen_random_word(src, lang, true),
        1 => format!("{}'{}", gen_random_word(src, lang, true), gen_random_word(src, lang, false)),
        _ => gen_word(src, lang, Flavor::Clean),
    };
    if src.chance(1, 4) {
        let cs: Vec<char> = word.chars().collect();
        let i = src.below(cs.len() + 1);
        let x = *src.pick(&['ß', 'ẞ', 'œ', 'æ', 'ø', 'Œ']);
        word = cs[..i].iter().chain(std::iter::once(&x)).chain(cs[i..].iter()).collect();
    }
    let lead = *src.pick(&["", " ", "-", "'", "\0", "("]);
    let trail = *src.pick(&["", " ", "!", "'", "\0", ")."]);
    let title = format!("{}{}{}", lead, word, trail);
    let n = src.below(3);
    let vocab: Vec<String> = Vec::new();
    let others: Vec<Rec> = (0..n).map(|k| (k + 2, gen_title(src, lang, &vocab, Flavor::Clean), gen_rating(src))).collect();
    Box::new(PrefixCase { lang, title, others })
}

impl Case for PrefixCase {
    fn describe(&self) -> Value {
        json!({"lang": self.lang, "one_word_title": show(&self.title), "other_records": self.others.iter().map(|r| show(&r.1)).collect::<Vec<_>>(), "probes": "every prefix of the word ending in a letter or digit"})
    }
    fn key(&self) -> u64 {
        hash64(self)
    }
    fn check(&self, ctx: &mut Ctx) -> Result<(), Violation> {
        let l = lang_of(self.lang);
        let t = tokenize_record(&self.title, &l);
        if t.words.len() != 1 {
            ctx.label("skipped-not-one-word");
            return Ok(());
        }
        let mut recs: Vec<Rec> = vec![(1, self.title.clone(), 5)];
        recs.extend(self.others.iter().cloned());
        let mut store = build_store(self.lang, &recs, 10);
        store.highlight_with(("<<", ">>"));
        let wd = &t.words[0];
        for p in 1..=(wd.slice.1 - wd.slice.0) {
            if !t.chars[wd.slice.0 + p - 1].is_alphanumeric() {
                continue;
            }
            let want = &t.chars[wd.slice.0..wd.slice.0 + p];
            // two spellings of the typed prefix: normalised characters, original characters
            let spellings = [want.iter().collect::<String>(), nz(&t.source[wd.slice.0..wd.slice.0 + p])];
            let exp = format!("{}<<{}>>{}", nz(&t.source[..wd.slice.0]), nz(&t.source[wd.slice.0..wd.slice.0 + p]), nz(&t.source[wd.slice.0 + p..]));
            for (vi, q) in spellings.iter().enumerate() {
                if vi == 1 && *q == spellings[0] {
                    continue;
                }
                // precondition: what was typed must itself normalise to a prefix of the word (a cut
                // between a base letter and its combining mark, or in the middle of an expanding
                // letter, types something else)
                let tq = tokenize_query(q, &l);
                let typed: &[char] = if tq.words.len() == 1 { &tq.chars[tq.words[0].slice.0..tq.words[0].slice.1] } else { &[] };
                let wchars = &t.chars[wd.slice.0..wd.slice.1];
                let odd = typed.len() < p || typed.len() > p + 1 || !wchars.starts_with(typed);
                if odd && retyping_may_differ(&[&wchars[..p]], q) {
                    ctx.count("skipped_not_a_normalised_prefix", 1);
                    continue;
                }
                // (if the typed text does not tokenise to the prefix although nothing in it could
                // explain that, the probe is made anyway and judged against the prefix itself)
                let pp = if odd { p } else { typed.len() };
                let exp = if pp == p { exp.clone() } else { format!("{}<<{}>>{}", nz(&t.source[..wd.slice.0]), nz(&t.source[wd.slice.0..wd.slice.0 + pp]), nz(&t.source[wd.slice.0 + pp..])) };
                if (p + vi) % 4 == 0 {
                    // the user typed the word and a space, then took the space back
                    let _ = search(&store, &format!("{} ", q));
                }
                let hits = search(&store, q);
                ctx.count("prefix_probes", 1);
                match hits.iter().find(|h| h.0 == 1) {
                    Some(h) if h.1 == exp => {}
                    other => {
                        return ctx.fail("exact-prefix-highlight", "", format!("lang={} title={:?} query={:?} expected {:?} got {:?}", self.lang, self.title, q, exp, other.map(|h| &h.1)));
                    }
                }
            }
            if p < wd.slice.1 - wd.slice.0 {
                ctx.nontrivial();
            }
        }
        ctx.label_if(t.source.contains(&'\0'), "padded-word");
        ctx.label_if(wd.slice.1 - wd.slice.0 > 64, "word>64");
        ctx.label_if(self.title.contains('\''), "inner-or-edge-apostrophe");
        Ok(())
    }
}

pub fn def() -> PropDef {
    PropDef {
        id: "C05",
        title: "No unrelated hits, and highlights never exceed what was typed",
        rule: "space 'world': random worlds of 1-12 adversarial records, any limit, 3 queries each (related, near-miss, unrelated alphabets); only queries with a letter or digit are judged; gram sets recomputed with an own gram function from the public tokeniser; span lengths from a sentinel parse, counted conservatively across NUL padding. space 'prefix': one-word titles (expanding letters, inner apostrophes, edge separators, 0-2 other records, limit 10) x every prefix ending in a letter or digit. Non-trivial = a hit whose span is shorter than its word (world) / a probe with a proper prefix (prefix); distinct = distinct world / title",
        assumptions: &[],
        spaces: vec![
            Space { name: "world", decode, plan: |t| Plan::Random(t.n(160_000, 3_000_000)) },
            Space { name: "prefix", decode: decode_prefix, plan: |t| Plan::Random(t.n(90_000, 1_500_000)) },
        ],
        differential: false,
        floors: &[("hits", 0.5), ("prefix_probes", 0.5)],
    }
}
