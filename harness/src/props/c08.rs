//! C08 - documented ranking priorities hold regardless of rating (two-record stores).

use crate::core::*;
use crate::gen::*;
use crate::source::Source;
use crate::tables;
use serde_json::{json, Value};

#[derive(Clone, Debug, Hash)]
pub struct Inst {
    pub rule: &'static str,
    /// title that must come first
    pub a: String,
    pub b: String,
    pub query: String,
    pub ra: usize,
    pub rb: usize,
}

#[derive(Clone, Debug, Hash)]
pub struct C08Case {
    pub lang: &'static str,
    pub swap: bool,
    pub insts: Vec<Inst>,
    pub redraws: usize,
}

fn sets(lang: &str) -> (Vec<char>, Vec<char>, Vec<char>) {
    if is_cyr(lang) {
        ("абвгдежз".chars().collect(), "иклмнопр".chars().collect(), "стуфхцчш".chars().collect())
    } else {
        ("abcdefgh".chars().collect(), "ijklmnop".chars().collect(), "qrstuvwx".chars().collect())
    }
}

fn word_from(src: &mut Source, alpha: &[char], lo: usize, hi: usize) -> String {
    let n = src.range(lo, hi);
    (0..n).map(|_| *src.pick(alpha)).collect()
}

/// content-ness is decided by the PINNED function-word table, never by the library under test
/// (a library that starts treating a content word as a function word must not excuse itself)
fn is_func(lang: &str, w: &str) -> bool {
    !w.chars().all(|c| c.is_alphanumeric()) || is_pinned_function(lang, w)
}

/// draw a non-function word (bounded re-draws, counted)
fn content_word(src: &mut Source, l: &str, alpha: &[char], lo: usize, hi: usize, redraws: &mut usize) -> Option<String> {
    for _ in 0..6 {
        let w = word_from(src, alpha, lo, hi);
        if !is_func(l, &w) {
            return Some(w);
        }
        *redraws += 1;
    }
    None
}

pub fn decode(src: &mut Source) -> Box<dyn Case> {
    let lang = gen_lang(src);
    let l = lang;
    let (au, av, ax) = sets(lang);
    let mut redraws = 0usize;
    let swap = src.chance(1, 2);
    let mut insts: Vec<Inst> = Vec::new();
    let u = content_word(src, l, &au, 5, 9, &mut redraws);
    let v = content_word(src, l, &av, 5, 9, &mut redraws);
    // the filler may be a single letter or digit-like short word as well as a long one
    let x = if src.chance(1, 4) { content_word(src, l, &ax, 1, 2, &mut redraws) } else { content_word(src, l, &ax, 3, 9, &mut redraws) };
    if let (Some(u), Some(v), Some(x)) = (u, v, x) {
        // ratings: uniform, and adversarially ordered in half of the instances
        let ratings = |src: &mut Source| -> (usize, usize) {
            let r1 = src.below(1usize << 31);
            let r2 = src.below(1usize << 31);
            if src.chance(1, 2) { (r1.min(r2), r1.max(r2)) } else { (r1, r2) }
        };
        let mut push = |rule: &'static str, a: String, b: String, q: String, r: (usize, usize)| {
            insts.push(Inst { rule, a, b, query: q, ra: r.0, rb: r.1 });
        };
        // R1 exact word > same word with a typo
        {
            let uc: Vec<char> = u.chars().collect();
            let mut e = uc.clone();
            let k = src.below(e.len());
            match src.below(4) {
                0 => {
                    let mut c = *src.pick(&au);
                    if c == e[k] {
                        c = au[(au.iter().position(|&y| y == c).unwrap() + 1) % au.len()];
                    }
                    e[k] = c;
                }
                1 => e.insert(k, *src.pick(&au)),
                2 => {
                    e.remove(k);
                }
                _ => {
                    let k = k.min(e.len() - 2);
                    e.swap(k, k + 1);
                }
            }
            let t: String = e.iter().collect();
            if t != u && !is_func(l, &t) {
                let r = ratings(src);
                push("R1 exact>typo", u.clone(), t, u.clone(), r);
            }
        }
        let r = ratings(src);
        push("R2 both>one (u)", format!("{} {}", u, v), u.clone(), format!("{} {}", u, v), r);
        let r = ratings(src);
        push("R2 both>one (v)", format!("{} {}", u, v), v.clone(), format!("{} {}", u, v), r);
        let r = ratings(src);
        push("R2 both>one (u x)", format!("{} {}", u, v), format!("{} {}", u, x), format!("{} {}", u, v), r);
        let r = ratings(src);
        push("R2 both>one (x v)", format!("{} {}", u, v), format!("{} {}", x, v), format!("{} {}", u, v), r);
        // R1 also: the word spelled as two words is the word with a (separator) typo
        {
            let uc: Vec<char> = u.chars().collect();
            let k = 1 + src.below(uc.len() - 1);
            let sep = *src.pick(&[" ", "-"]);
            let split = format!("{}{}{}", uc[..k].iter().collect::<String>(), sep, uc[k..].iter().collect::<String>());
            if split.split(|c: char| c == ' ' || c == '-').all(|h| !is_pinned_function(lang, h)) {
                let r = ratings(src);
                push("R1 exact>split spelling", u.clone(), split, u.clone(), r);
            }
        }
        // R3 'u' > 'u'+suffix for u and for any typed prefix
        {
            // random letters, or a real inflectional ending of the language (the stemmer then maps
            // the longer word back onto u)
            let sfx = if src.chance(1, 2) { word_from(src, &au, 1, 3) } else { src.pick(suffixes(lang)).to_string() };
            let long = format!("{}{}", u, sfx);
            if !is_func(l, &long) {
                let r = ratings(src);
                push("R3 word>word+suffix (full)", u.clone(), long.clone(), u.clone(), r);
                // the full word typed and finished (a separator follows)
                let r = ratings(src);
                push("R3 word>word+suffix (full, finished)", u.clone(), long.clone(), format!("{} ", u), r);
                let uc: Vec<char> = u.chars().collect();
                let p = 1 + src.below(uc.len());
                let r = ratings(src);
                push("R3 word>word+suffix (prefix)", u.clone(), long, uc[..p].iter().collect(), r);
            }
        }
        let r = ratings(src);
        push("R4 'u v x'>'u x v'", format!("{} {} {}", u, v, x), format!("{} {} {}", u, x, v), format!("{} {}", u, v), r);
        let r = ratings(src);
        push("R5 'u x'>'x u'", format!("{} {}", u, x), format!("{} {}", x, u), u.clone(), r);
        {
            let r1 = src.below(1usize << 31);
            let r2 = src.below(1usize << 31);
            if r1 != r2 {
                push("R6 identical titles: higher rating first", u.clone(), u.clone(), u.clone(), (r1.max(r2), r1.min(r2)));
            }
            push("R7 equal rating: 'u'>'u x'", u.clone(), format!("{} {}", u, x), u.clone(), (r1, r1));
        }
        // R8 function word query: content word starting with f > f itself
        let fs = tables::func_words(lang);
        if !fs.is_empty() {
            let f = src.pick(fs).to_string();
            // random letters, or exactly an inflectional ending (the stemmer then maps the content
            // word back onto the function word: danse -> dans, overs -> over)
            let sfx = if src.chance(1, 2) { word_from(src, &au, 1, 5) } else if src.chance(1, 2) { src.pick(suffixes(lang)).to_string() } else { src.pick(&["e", "s", "o", "a", "n", "r", "en", "es", "er"]).to_string() };
            let cw = format!("{}{}", f, sfx);
            // the filler must be unrelated to f as well: letters of the filler set that do not occur in f
            let fnorm: Vec<char> = pinned_normalise(lang, &f).chars().collect();
            let ax8: Vec<char> = ax.iter().cloned().filter(|c| !fnorm.contains(c) && !f.contains(*c)).collect();
            let x8 = if ax8.len() >= 3 { content_word(src, l, &ax8, 3, 9, &mut redraws) } else { None };
            // f is a function word because the pinned table of the language says so - the library is
            // NOT asked (a library that forgets one must be caught, not excused)
            if f.chars().all(|c| c.is_alphanumeric()) && !is_func(l, &cw) {
                let r = ratings(src);
                push("R8 f+suffix>f", cw.clone(), f.clone(), f.clone(), r);
                if let Some(x8) = x8 {
                    let r = ratings(src);
                    push("R8 'x f+suffix'>'f x'", format!("{} {}", x8, cw), format!("{} {}", f, x8), f.clone(), r);
                }
            } else {
                redraws += 1;
            }
        }
    }
    // ranking must not depend on how the titles are capitalised (search is case-insensitive):
    // re-case title words in a third of the cases
    if src.chance(1, 3) {
        for i in insts.iter_mut() {
            let style = src.below(3);
            let recase = |t: &str| -> String {
                t.split(' ')
                    .map(|w| match style {
                        0 => {
                            let mut cs = w.chars();
                            match cs.next() {
                                Some(c) => c.to_uppercase().chain(cs).collect::<String>(),
                                None => String::new(),
                            }
                        }
                        1 => w.to_uppercase(),
                        _ => w.to_string(),
                    })
                    .collect::<Vec<_>>()
                    .join(" ")
            };
            // only letters whose upper-case form lower-cases back to the same text keep the word intact
            let a2 = recase(&i.a);
            let b2 = recase(&i.b);
            if a2.to_lowercase() == i.a.to_lowercase() && b2.to_lowercase() == i.b.to_lowercase() {
                i.a = a2;
                i.b = b2;
            }
        }
    }
    Box::new(C08Case { lang, swap, insts, redraws })
}

impl Case for C08Case {
    fn describe(&self) -> Value {
        json!({"lang": self.lang, "insert_loser_first": self.swap, "instances": self.insts.iter().map(|i| json!({"rule": i.rule, "must_come_first": [show(&i.a), i.ra], "other": [show(&i.b), i.rb], "query": show(&i.query)})).collect::<Vec<_>>()})
    }
    fn key(&self) -> u64 {
        hash64(self)
    }
    fn check(&self, ctx: &mut Ctx) -> Result<(), Violation> {
        for i in &self.insts {
            let recs: Vec<Rec> = if self.swap { vec![(2, i.b.clone(), i.rb), (1, i.a.clone(), i.ra)] } else { vec![(1, i.a.clone(), i.ra), (2, i.b.clone(), i.rb)] };
            let st = build_store(self.lang, &recs, 10);
            let hits = search(&st, &i.query);
            let pa = hits.iter().position(|h| h.0 == 1);
            let pb = hits.iter().position(|h| h.0 == 2);
            let ok = match (pa, pb) {
                (Some(a), Some(b)) => a < b,
                (Some(_), None) => true,
                _ => false,
            };
            ctx.count("instances", 1);
            if !ok {
                let clause = i.rule.split(' ').next().unwrap_or("R?");
                let clause: &'static str = match clause { "R1" => "R1", "R2" => "R2", "R3" => "R3", "R4" => "R4", "R5" => "R5", "R6" => "R6", "R7" => "R7", _ => "R8" };
                return ctx.fail(clause, "", format!("lang={} rule {:?}: title {:?} (rating {}) must outrank {:?} (rating {}) for query {:?}; inserted {} first; hits {:?}", self.lang, i.rule, i.a, i.ra, i.b, i.rb, i.query, if self.swap { "the second" } else { "the first" }, hits));
            }
            let adversarial = i.rb > i.ra || i.rule.starts_with("R6") || i.rule.starts_with("R7");
            if adversarial {
                ctx.nontrivial();
            }
            ctx.label(match i.rule.as_bytes()[1] { b'1' => "R1", b'2' => "R2", b'3' => "R3", b'4' => "R4", b'5' => "R5", b'6' => "R6", b'7' => "R7", _ => "R8" });
            ctx.label_if(i.rb > i.ra, "loser-has-higher-rating");
            ctx.label_if(i.a.chars().any(|c| c.is_uppercase()), "recased-titles");
        }
        ctx.count("redraws", self.redraws as u64);
        ctx.label_if(self.insts.is_empty(), "skipped-no-content-words");
        Ok(())
    }
}

pub fn def() -> PropDef {
    PropDef {
        id: "C08",
        title: "Documented ranking priorities hold regardless of rating",
        rule: "per case: a language, words u, v (5-9 letters) and filler x (3-9) over three mutually disjoint letter sets of the language's script, each confirmed a non-function word with the public tokeniser (bounded re-draws, counted); 10-13 two-record rule instances (R1 exact>typo, R2 both>one x4, R3 word>word+suffix for the word and a typed prefix, R4, R5, R6, R7, R8 x2 with a function word from the pinned list of the language) with ratings uniform in [0,2^31), the title that should lose getting the larger rating in ~3/4 of the instances, both insertion orders. Non-trivial = the losing title has the strictly larger rating (R6/R7: ratings distinct/equal as stated); distinct = distinct case",
        assumptions: &["function words are the single-token entries of the language tables at the pinned commit (harness/src/tables.rs)", "'A outranks B' = A is a hit and precedes B if B is one"],
        spaces: vec![Space { name: "rules", decode, plan: |t| Plan::Random(t.n(100_000, 2_000_000)) }],
        differential: false,
        floors: &[("instances", 5.0)],
    }
}
