//! C09 - highlight markup is balanced, word-aligned and present exactly when expected.

use crate::core::*;
use crate::gen::*;
use crate::model::*;
use crate::source::Source;
use crate::world::*;
use lucid_suggest_core::tokenization::tokenize_record;
use lucid_suggest_core::*;
use serde_json::Value;

#[derive(Clone, Debug, Hash)]
pub struct C09Case {
    pub w: World,
    /// reach the store through the registry functions instead of `Store`
    pub via_registry: bool,
    /// every query is first run under other markers ("[", "]"), the configured markers are then
    /// restored and the same query is repeated: the repeated answer is the one examined
    pub remarked: bool,
}

/// joined shapes over-represented: titles a-b / a b / ab against queries ab / a b with 0-1 typos
fn joined_world(src: &mut Source) -> World {
    let lang = gen_lang(src);
    let n = src.range(1, 4);
    let mut recs: Vec<Rec> = Vec::new();
    let mut queries = Vec::new();
    for k in 0..n {
        let w: Vec<char> = gen_random_word(src, lang, true).chars().collect();
        let len = w.len();
        let cut = if len < 2 { 0 } else if src.chance(1, 3) { 1 } else { 1 + src.below(len - 1) };
        let gap = *src.pick(&[" ", "-", "  ", " - ", "   "]);
        let a: String = w[..cut].iter().collect();
        let b: String = w[cut..].iter().collect();
        let whole: String = w.iter().collect();
        let extra = if src.chance(1, 3) { format!(" {}", gen_random_word(src, lang, false)) } else { String::new() };
        let title = match src.below(3) {
            0 => format!("{}{}{}{}", a, gap, b, extra),
            1 => format!("{}{}", whole, extra),
            _ => format!("{}{}{}{}", gen_random_word(src, lang, false), gap, whole, extra),
        };
        recs.push((k + 1, title, gen_rating(src)));
        let mut q: Vec<char> = match src.below(3) {
            0 => whole.chars().collect(),
            1 => format!("{} {}", a, b).chars().collect(),
            _ => format!("{}{}{}", a, gap, b).chars().collect(),
        };
        if src.chance(1, 2) {
            gen_edit(src, lang, &mut q);
        }
        if src.chance(1, 4) && !q.is_empty() {
            let m = 1 + src.below(q.len());
            q.truncate(m);
        }
        queries.push(q.into_iter().collect());
    }
    let refilled = src.chance(1, 8);
    World { lang, recs, limit: 10, queries, markers: (SL.to_string(), SR.to_string()), refilled }
}

/// a title of 21-45 words and queries aimed at its late words
fn long_title_world(src: &mut Source) -> World {
    let lang = gen_lang(src);
    let vocab = gen_vocab(src, lang, Flavor::Clean, 3, 8);
    let n = src.range(21, 45);
    let mut words: Vec<String> = (0..n).map(|_| if src.chance(1, 2) { src.pick(&vocab).clone() } else { gen_random_word(src, lang, true) }).collect();
    // a word that occurs only late in the title
    let late = gen_random_word(src, lang, false);
    let pos = src.range(20, n - 1);
    words[pos] = late.clone();
    let title = words.join(" ");
    let mut recs: Vec<Rec> = vec![(1, title, gen_rating(src))];
    if src.chance(1, 2) {
        recs.push((2, gen_title(src, lang, &vocab, Flavor::Clean), gen_rating(src)));
    }
    let lc: Vec<char> = late.chars().collect();
    let q1: String = lc[..1 + src.below(lc.len())].iter().collect();
    let q2 = format!("{} {}", words[n - 1], late);
    World { lang, recs, limit: 10, queries: vec![q1, late, q2], markers: (SL.to_string(), SR.to_string()), refilled: false }
}

pub fn decode(src: &mut Source) -> Box<dyn Case> {
    let mut w = if src.chance(1, 12) {
        long_title_world(src)
    } else if src.chance(2, 5) {
        joined_world(src)
    } else {
        let mut w = gen_world(src, WorldOpts { dup_ids: false, ..WorldOpts::highlight() });
        if src.chance(1, 5) {
            w.queries.push(src.pick(&["", " ", "-", "\0", "' ", "+ -"]).to_string());
        }
        w
    };
    w.markers = (SL.to_string(), SR.to_string());
    // the registry is also handed markers with white space / control characters around the sentinels:
    // they are part of the configured markers, not decoration to be cleaned up
    let via_registry = src.chance(1, 6);
    if src.chance(1, 6) {
        let pad = *src.pick(&[" ", "\u{a0}", "\t", "\u{1b}"]);
        w.markers = (format!("{}{}", SL, pad), format!("{}{}", pad, SR));
    }
    let remarked = src.chance(1, 4);
    Box::new(C09Case { w, via_registry, remarked })
}

impl Case for C09Case {
    fn describe(&self) -> Value {
        let mut d = self.w.describe();
        d["markers"] = serde_json::json!(format!("sentinels U+E000/U+E001, as configured: ({:?}, {:?})", self.w.markers.0, self.w.markers.1));
        d["via_registry"] = serde_json::json!(self.via_registry);
        d["each_query_first_run_under_other_markers"] = serde_json::json!(self.remarked);
        d
    }
    fn key(&self) -> u64 {
        hash64(self)
    }
    fn check(&self, ctx: &mut Ctx) -> Result<(), Violation> {
        let w = &self.w;
        let mut store = w.backend(self.via_registry);
        let l = lang_of(w.lang);
        let toks: Vec<TextOwn> = w.recs.iter().map(|r| tokenize_record(&r.1, &l)).collect();
        // padded markers: the padding must come back exactly; it is then removed for the span walk
        let (ml, mr) = (w.markers.0.clone(), w.markers.1.clone());
        let padded = ml.chars().count() > 1;
        for q in &w.queries {
            if self.remarked {
                store.set_markers("[", "]");
                let _ = store.search(q);
                store.set_markers(&ml, &mr);
                ctx.label("query-repeated-after-marker-change");
            }
            let mut hits = store.search(q);
            if padded {
                for h in hits.iter_mut() {
                    let opens = h.1.matches(SL).count();
                    if h.1.matches(ml.as_str()).count() != opens || h.1.matches(mr.as_str()).count() != h.1.matches(SR).count() {
                        return ctx.fail("markers-altered", "", format!("lang={} query={:?} configured markers ({:?}, {:?}) but the returned title is {:?}", w.lang, q, ml, mr, h.1));
                    }
                    h.1 = h.1.replace(ml.as_str(), &SL.to_string()).replace(mr.as_str(), &SR.to_string());
                }
            }
            let has_alnum = q.chars().any(|c| c.is_alphanumeric());
            for (id, out) in &hits {
                ctx.count("hits", 1);
                let ri = match w.recs.iter().position(|r| r.0 == *id) {
                    Some(i) => i,
                    None => continue, // C02's business
                };
                let t = &toks[ri];
                let info = |x: String| format!("lang={} query={:?} title={:?} returned={:?} words={:?} {}", w.lang, q, w.recs[ri].1, out, t.words.iter().map(|w| w.slice).collect::<Vec<_>>(), x);
                let p = match parse_hl(out, &t.source) {
                    Ok(p) => p,
                    Err(e) => {
                        let clause = if e.starts_with("nested") || e.starts_with("close") || e.starts_with("unclosed") { "markers-unbalanced" } else { "text-altered" };
                        if clause == "text-altered" {
                            // C02 decides text fidelity; structure cannot be judged here - except that
                            // a title without a single configured marker has no span at all
                            if has_alnum && !out.contains(SL) && !out.contains(SR) {
                                return ctx.fail("no-span-for-word-query", "", info("(the returned title carries none of the configured markers)".into()));
                            }
                            continue;
                        }
                        return ctx.fail(clause, "", info(e));
                    }
                };
                let mut used = vec![false; t.words.len()];
                for &(st, emin, _emax) in &p.spans {
                    if emin <= st {
                        return ctx.fail("empty-span", "", info(format!("span at {}", st)));
                    }
                    match t.words.iter().position(|wd| wd.slice.0 == st) {
                        None => return ctx.fail("span-not-at-word-start", "", info(format!("span {}..{}", st, emin))),
                        Some(wi) => {
                            if emin > t.words[wi].slice.1 {
                                return ctx.fail("span-beyond-word", "", info(format!("span {}..{} word {:?}", st, emin, t.words[wi].slice)));
                            }
                            if used[wi] {
                                return ctx.fail("word-highlighted-twice", "", info(format!("word {}", wi)));
                            }
                            used[wi] = true;
                            ctx.label_if(emin < t.words[wi].slice.1, "span-ends-inside-word");
                        }
                    }
                }
                if has_alnum && p.spans.is_empty() {
                    return ctx.fail("no-span-for-word-query", "", info(String::new()));
                }
                if !has_alnum && !p.spans.is_empty() {
                    return ctx.fail("span-for-empty-query", "", info(String::new()));
                }
                ctx.label_if(p.spans.len() >= 2, "multi-span");
                ctx.label_if(!has_alnum, "empty-query-hit");
                ctx.label_if(self.via_registry, "via-registry");
                ctx.label_if(padded, "padded-markers");
                ctx.label_if(t.words.len() > 20 && p.spans.iter().any(|&(st, _, _)| t.words.iter().position(|wd| wd.slice.0 == st).map(|i| i >= 20).unwrap_or(false)), "span-beyond-20th-word");
                let inside = p.spans.iter().any(|&(st, emin, emax)| t.words.iter().any(|wd| wd.slice.0 == st && emax < wd.slice.1 && emin < wd.slice.1));
                if p.spans.len() >= 2 || inside {
                    ctx.nontrivial();
                }
            }
        }
        Ok(())
    }
}

pub fn def() -> PropDef {
    PropDef {
        id: "C09",
        title: "Highlight markup is balanced, word-aligned and present exactly when expected",
        rule: "random worlds; 40% are 'joined shape' worlds (titles a-b / a b / ab / x ab against queries ab / a b / a-b, gap widths 1-3, one-letter halves, 0-1 typos, truncated), the rest general adversarial worlds with related, unrelated and empty/separator-only queries. Hits are searched with sentinel markers and walked in lock-step against the public tokenisation of the stored title. Non-trivial = a hit with >= 2 spans, or a span ending strictly inside its word; distinct = distinct world",
        assumptions: &["NUL padding makes a close-marker position ambiguous; the walk uses the earliest possible end, which cannot create a false alarm", "hits whose text does not match the stored title are left to C02"],
        spaces: vec![Space { name: "world", decode, plan: |t| Plan::Random(t.n(300_000, 4_000_000)) }],
        differential: false,
        floors: &[("hits", 0.5)],
    }
}
