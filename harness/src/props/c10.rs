//! C10 - no stale state: after any history the store answers like a freshly built one.

use crate::core::*;
use crate::gen::*;
use crate::source::Source;
use lucid_suggest_core::*;
use serde_json::{json, Value};

#[derive(Clone, Debug, Hash, PartialEq)]
pub enum Op {
    Add(String, usize),
    Clear,
    Limit(usize),
    Markers(String, String),
    Search(String),
}

#[derive(Clone, Debug, Hash)]
pub struct C10Case {
    pub lang: &'static str,
    pub ops: Vec<Op>,
}

/// the 9-letter operation alphabet of the exhaustive space
pub fn small_op(lang: &str, k: usize) -> Op {
    let cyr = is_cyr(lang);
    let (t1, t2, w, w2) = if cyr { ("кра уво", "уво я", "у", "кра") } else { ("kra uvo", "uvo q", "u", "kra") };
    match k {
        0 => Op::Search(String::new()),
        1 => Op::Search(w.into()),
        2 => Op::Search(w2.into()),
        3 => Op::Add(t1.into(), 5),
        4 => Op::Add(t2.into(), 5),
        5 => Op::Clear,
        6 => Op::Limit(1),
        7 => Op::Limit(3),
        _ => Op::Markers("<".into(), ">".into()),
    }
}

pub fn decode_small(src: &mut Source) -> Box<dyn Case> {
    let lang = gen_lang(src);
    let n = src.below(7);
    let ops = (0..n).map(|_| small_op(lang, src.below(9))).collect();
    Box::new(C10Case { lang, ops })
}

/// all op sequences of length 1..=maxlen that END in a search (every search inside is checked,
/// so these cover every history up to that length as far as search results are concerned)
pub fn enumerate_small(maxlen: usize) -> Box<dyn Iterator<Item = Vec<u32>> + Send> {
    let mut all: Vec<Vec<u32>> = Vec::new();
    for lang in 0..7u32 {
        for len in 1..=maxlen {
            let mut idx = vec![0u32; len - 1];
            loop {
                for last in 0..3u32 {
                    let mut v = vec![lang, len as u32];
                    v.extend(idx.iter());
                    v.push(last);
                    all.push(v);
                }
                let mut k = idx.len();
                let mut carried = true;
                while k > 0 {
                    k -= 1;
                    if idx[k] + 1 < 9 {
                        idx[k] += 1;
                        for x in idx.iter_mut().skip(k + 1) {
                            *x = 0;
                        }
                        carried = false;
                        break;
                    }
                }
                if carried {
                    break;
                }
            }
        }
    }
    Box::new(all.into_iter())
}

pub fn decode_random(src: &mut Source) -> Box<dyn Case> {
    let lang = gen_lang(src);
    let flavor = if src.chance(1, 4) { Flavor::Adversarial } else { Flavor::Clean };
    let vocab: Vec<String> = {
        let n = src.range(2, 6);
        (0..n).map(|_| {
            if src.chance(1, 12) {
                // a long word now and then: grows the shared distance matrix between searches
                let plain = plain_letters(lang);
                let n = src.range(23, 60);
                (0..n).map(|_| plain[src.below(5)]).collect()
            } else {
                let mut w = String::new();
                for _ in 0..src.range(1, 7) {
                    gen_letter(src, lang, &mut w, false);
                }
                w
            }
        }).collect()
    };
    let mut ops: Vec<Op> = Vec::new();
    let mut titles: Vec<String> = Vec::new();
    // what the user is in the middle of typing: (target text, characters typed so far)
    let mut typing: Option<(Vec<char>, usize)> = None;
    while (ops.len() < 60 || (ops.len() > 1000 && ops.len() < 1260)) && (ops.len() < 2 || src.chance(9, 10)) {
        match src.weighted(&[80, 80, 20, 30, 20, 60, 10, 10, if ops.len() < 4 { 1 } else { 0 }]) {
            8 => {
                // a catalogue of more than a thousand records loaded at once
                for _ in 0..src.range(1030, 1200) {
                    let t = format!("{} {}", src.pick(&vocab), src.pick(&vocab));
                    titles.push(t.clone());
                    ops.push(Op::Add(t, src.below(5) * 10));
                }
            }
            6 => {
                // reload: clear and fill with exactly as many records as the store held
                let n = titles.len();
                if n > 0 {
                    ops.push(Op::Clear);
                    let mut t2 = titles.clone();
                    shuffle(src, &mut t2);
                    for t in t2.iter() {
                        ops.push(Op::Add(t.clone(), src.below(5) * 10));
                    }
                    titles = t2;
                }
            }
            7 => {
                // bulk load: 8-20 records at once
                for _ in 0..src.range(8, 20) {
                    let nw = src.range(1, 3);
                    let t = (0..nw).map(|_| src.pick(&vocab).clone()).collect::<Vec<_>>().join(" ");
                    titles.push(t.clone());
                    ops.push(Op::Add(t, src.below(5) * 10));
                }
            }
            5 => {
                // search-as-you-type: every keystroke is a search; the target is a vocabulary word
                // (or two), possibly with an early typo, typed one more character each time
                let cont = match &typing {
                    Some((t, k)) => *k < t.len(),
                    None => false,
                };
                if !cont {
                    let mut t: Vec<char> = src.pick(&vocab).chars().collect();
                    if src.chance(1, 2) && t.len() >= 2 {
                        // an early typo: swap / drop / replace among the first three letters
                        let i = src.below(t.len().min(3));
                        match src.below(3) {
                            0 => {
                                if i + 1 < t.len() {
                                    t.swap(i, i + 1)
                                }
                            }
                            1 => {
                                t.remove(i);
                            }
                            _ => t[i] = *src.pick(&plain_letters(lang)),
                        }
                    }
                    if src.chance(1, 4) {
                        t.push(' ');
                        t.extend(src.pick(&vocab).chars());
                    }
                    typing = Some((t, 0));
                }
                if let Some((t, k)) = typing.as_mut() {
                    *k += 1;
                    let q: String = t[..*k].iter().collect();
                    ops.push(Op::Search(q));
                }
            }
            0 => {
                let t = if src.chance(4, 5) {
                    let nw = src.range(1, 3);
                    (0..nw).map(|_| src.pick(&vocab).clone()).collect::<Vec<_>>().join(gen_sep(src, flavor))
                } else {
                    gen_title(src, lang, &vocab, flavor)
                };
                titles.push(t.clone());
                ops.push(Op::Add(t, src.below(5) * 10));
            }
            1 => {
                let q = match src.weighted(&[3, 1, 6, 3]) {
                    0 => String::new(),
                    1 => src.pick(&[" ", " - ", "\0", "'"]).to_string(),
                    2 => {
                        let w: Vec<char> = src.pick(&vocab).chars().collect();
                        let k = 1 + src.below(w.len());
                        w[..k].iter().collect()
                    }
                    _ => gen_query(src, lang, &titles, &vocab, flavor),
                };
                ops.push(Op::Search(q));
            }
            2 => {
                ops.push(Op::Clear);
                titles.clear();
            }
            3 => ops.push(Op::Limit(src.below(7))),
            _ => {
                let l = src.pick(&["", "<", "[[", "a", "{", "<em>", "«", "【", "\u{1b}[1m", "«\u{a0}", "\t"]).to_string();
                let r = src.pick(&["", ">", "]]", "a", "}", "</em>", "»", "】", "\u{1b}[0m", "\u{a0}»", "\t"]).to_string();
                ops.push(Op::Markers(l, r));
            }
        }
    }
    Box::new(C10Case { lang, ops })
}

pub fn op_json(op: &Op) -> Value {
    match op {
        Op::Add(t, r) => json!({"add": show(t), "rating": r}),
        Op::Clear => json!("clear"),
        Op::Limit(n) => json!({"limit": n}),
        Op::Markers(l, r) => json!({"markers": [l, r]}),
        Op::Search(q) => json!({"search": show(q)}),
    }
}

impl Case for C10Case {
    fn describe(&self) -> Value {
        if self.ops.len() > 120 {
            let head: Vec<Value> = self.ops.iter().take(30).map(op_json).collect();
            let tail: Vec<Value> = self.ops.iter().rev().take(40).rev().map(op_json).collect();
            return json!({"lang": self.lang, "n_ops": self.ops.len(), "first_ops": head, "last_ops": tail});
        }
        json!({"lang": self.lang, "ops": self.ops.iter().map(op_json).collect::<Vec<_>>()})
    }
    fn key(&self) -> u64 {
        hash64(self)
    }
    fn check(&self, ctx: &mut Ctx) -> Result<(), Violation> {
        let lang = self.lang;
        let mut st = Store::new();
        st.lang = lang_of(lang);
        // the model: what a user believes the store holds
        let mut recs: Vec<Rec> = Vec::new();
        let mut limit = DEFAULT_LIMIT;
        let mut marks = ("[".to_string(), "]".to_string());
        let mut next_id = 1usize;
        let mut empty_search_seen = false;
        let mut stale_window = false; // add / clear / larger limit after an empty search
        let mut cleared = false;
        let mut add_after_clear = false;
        for (k, op) in self.ops.iter().enumerate() {
            match op {
                Op::Add(t, r) => {
                    let id = next_id;
                    next_id += 1;
                    st.add(Record::new(id, t, *r, &st.lang));
                    recs.push((id, t.clone(), *r));
                    if empty_search_seen {
                        stale_window = true;
                    }
                    if cleared {
                        add_after_clear = true;
                    }
                }
                Op::Clear => {
                    st.clear();
                    recs.clear();
                    cleared = true;
                    if empty_search_seen {
                        stale_window = true;
                    }
                }
                Op::Limit(l) => {
                    if empty_search_seen && *l > limit {
                        stale_window = true;
                    }
                    st.limit = *l;
                    limit = *l;
                }
                Op::Markers(a, b) => {
                    st.highlight_with((a, b));
                    marks = (a.clone(), b.clone());
                }
                Op::Search(q) => {
                    let got = search(&st, q);
                    let again = search(&st, q);
                    let (r2, l2, m2, q2) = (recs.clone(), limit, marks.clone(), q.clone());
                    let exp = isolated(move || {
                        let mut s = build_store(lang, &r2, l2);
                        s.highlight_with((&m2.0, &m2.1));
                        search(&s, &q2)
                    });
                    ctx.count("searches", 1);
                    let info = |x: String| format!("lang={} step {} search {:?}: {}  | model: limit={} markers={:?} records={:?}", lang, k, q, x, limit, marks, recs);
                    let exp = match exp {
                        Ok(e) => e,
                        Err(e) => return ctx.fail("fresh-store-panicked", "", info(e)),
                    };
                    if got != exp {
                        return ctx.fail("differs-from-fresh-store", "", info(format!("store after the history returned {:?}, a freshly built store returns {:?}", got, exp)));
                    }
                    if again != got {
                        return ctx.fail("repeat-differs", "", info(format!("first {:?}, immediately repeated {:?}", got, again)));
                    }
                    if tokenize_query(q, &st.lang).words.is_empty() {
                        empty_search_seen = true;
                    }
                    if stale_window || add_after_clear {
                        ctx.nontrivial();
                    }
                    ctx.label_if(stale_window, "search-after-change-after-empty-search");
                    ctx.label_if(add_after_clear, "search-after-add-after-clear");
                    ctx.label_if(!got.is_empty(), "search-with-hits");
                    ctx.label_if(recs.len() > 1000, "store>1000");
                }
            }
        }
        Ok(())
    }
}

pub fn def() -> PropDef {
    PropDef {
        id: "C10",
        title: "No stale state: after any history the store answers like a freshly built one",
        rule: "space 'small': every operation sequence of length <= 5 (quick) / <= 6 (thorough) ending in a search over the 9-letter alphabet {search \"\", search w, search w', add t1, add t2 (shares a word with t1), clear, limit 1, limit 3, markers <>} for each of the 7 languages - enumerated completely (sequences not ending in a search add nothing: every search inside a sequence is checked); space 'random': sequences of up to 40 ops over per-case vocabularies (long words now and then, limits 0-6, empty / separator-only / prefix / derived queries). Oracle: after EVERY search, equality with a store rebuilt from the model in a fresh thread, and with the same search repeated. Non-trivial = a search after (add | clear | larger limit) after an empty-query search, or after add-after-clear; distinct = distinct history",
        assumptions: &["the reference store is built by Store::new + add in a freshly spawned thread (fresh Lang, fresh thread-local scratch)"],
        spaces: vec![
            Space { name: "small", decode: decode_small, plan: |t| match t { Tier::Quick => Plan::Enumerate(enumerate_small(5), true, "all op sequences of length <= 5 ending in a search, 9-letter alphabet x 7 languages"), Tier::Thorough => Plan::Enumerate(enumerate_small(6), true, "all op sequences of length <= 6 ending in a search, 9-letter alphabet x 7 languages") } },
            Space { name: "random", decode: decode_random, plan: |t| Plan::Random(t.n(60_000, 1_200_000)) },
        ],
        differential: false,
        floors: &[("searches", 0.8)],
    }
}
