//! C11 - search ignores letter case, Unicode composition form and the language's accents.

use crate::core::*;
use crate::gen::*;
use crate::model::is_split_char;
use crate::source::Source;
use crate::tables;
use crate::world::*;
use serde_json::{json, Value};

#[derive(Clone, Debug, Hash)]
pub struct C11Case {
    pub w: World,
    pub base: String,
    pub variants: Vec<(&'static str, String)>,
    /// titles with some inventory letters written base + combining mark
    pub decomposed_titles: Vec<String>,
}

/// rewrite a text with precomposed letters only: compose the language's pairs, drop free-standing marks
fn precompose(lang: &str, s: &str) -> String {
    let cs: Vec<char> = s.chars().collect();
    let mut out = String::new();
    let mut i = 0;
    while i < cs.len() {
        if i + 1 < cs.len() {
            let pair: String = [cs[i], cs[i + 1]].iter().collect();
            if let Some((_, c)) = tables::compose_pairs(lang).iter().find(|(d, _)| *d == pair) {
                out.push_str(c);
                i += 2;
                continue;
            }
        }
        let c = cs[i];
        // a combining mark: the general block, or whatever this language composes with
        // (a custom language may compose with U+3099, U+0345, U+0653 ...)
        let is_mark = (0x300..0x370).contains(&(c as u32)) || tables::compose_pairs(lang).iter().any(|(d, _)| d.chars().nth(1) == Some(c));
        if !is_mark {
            out.push(c);
        }
        i += 1;
    }
    out
}

/// other-case form, only for letters whose case mapping is one-to-one and round-trips
fn other_case(c: char) -> Option<char> {
    if c == 'ß' || c == 'ẞ' {
        return None;
    }
    if c.is_lowercase() {
        let mut u = c.to_uppercase();
        let (a, b) = (u.next(), u.next());
        if let (Some(a), None) = (a, b) {
            let mut l = a.to_lowercase();
            if l.next() == Some(c) && l.next().is_none() && a != c {
                return Some(a);
            }
        }
    } else if c.is_uppercase() {
        let mut l = c.to_lowercase();
        let (a, b) = (l.next(), l.next());
        if let (Some(a), None) = (a, b) {
            let mut u = a.to_uppercase();
            if u.next() == Some(c) && u.next().is_none() && a != c {
                return Some(a);
            }
        }
    }
    None
}

fn decompose_some(src: &mut Source, lang: &str, s: &str) -> String {
    let mut v = String::new();
    for c in s.chars() {
        if src.chance(1, 2) {
            if let Some((b, m)) = decomp_of(lang, c) {
                v.push(b);
                v.push(m);
                continue;
            }
        }
        v.push(c);
    }
    v
}

pub fn decode(src: &mut Source) -> Box<dyn Case> {
    let mut o = WorldOpts::find();
    o.fits_limit = false;
    o.max_recs = 6;
    o.queries = 1;
    o.ext_langs = true;
    // accents matter here: bias to the languages that fold something
    let mut w = gen_world(src, o);
    // titles: no free-standing marks that could interact with a decomposed spelling next to them
    for r in w.recs.iter_mut() {
        r.1 = precompose(w.lang, &r.1);
    }
    let lang = w.lang;
    let base = precompose(lang, &w.queries[0]);
    let bc: Vec<char> = base.chars().collect();
    let mut variants: Vec<(&'static str, String)> = Vec::new();
    // (i) other-case form of a random subset of positions
    variants.push(("recase", bc.iter().map(|&c| if src.chance(1, 2) { other_case(c).unwrap_or(c) } else { c }).collect()));
    // (ii) inventory letters written base + combining mark
    variants.push(("decompose", decompose_some(src, lang, &base)));
    // (iii) inventory letters folded
    {
        let mut v = String::new();
        for &c in &bc {
            if src.chance(1, 2) {
                if let Some(f) = fold_of(lang, c) {
                    v.push_str(f);
                    continue;
                }
            }
            v.push(c);
        }
        variants.push(("fold", v));
    }
    // (iv) split-class separators prefixed
    {
        let seps: Vec<char> = " \t\n.,;:!?-()&\0\u{a0}\u{2014}\u{1}\u{2026}".chars().collect();
        debug_assert!(seps.iter().all(|&c| is_split_char(c)));
        let k = src.range(1, 3);
        let mut v: String = (0..k).map(|_| *src.pick(&seps)).collect();
        v.push_str(&base);
        variants.push(("separator-prefix", v));
    }
    // all three spellings at once
    {
        let v: String = bc.iter().map(|&c| if src.chance(1, 3) { other_case(c).unwrap_or(c) } else { c }).collect();
        let v = decompose_some(src, lang, &v);
        variants.push(("recase+decompose", v));
    }
    let decomposed_titles = w.recs.iter().map(|r| decompose_some(src, lang, &r.1)).collect();
    Box::new(C11Case { w, base, variants, decomposed_titles })
}

impl Case for C11Case {
    fn describe(&self) -> Value {
        let mut d = self.w.describe();
        d.as_object_mut().unwrap().remove("queries");
        d["base_query"] = json!(show(&self.base));
        d["variants"] = json!(self.variants.iter().map(|(n, v)| json!([n, show(v)])).collect::<Vec<_>>());
        d["titles_stored_decomposed"] = json!(self.decomposed_titles.iter().map(|t| show(t)).collect::<Vec<_>>());
        d
    }
    fn key(&self) -> u64 {
        hash64(self)
    }
    fn check(&self, ctx: &mut Ctx) -> Result<(), Violation> {
        let w = &self.w;
        let store = w.store();
        let reference = search(&store, &self.base);
        let mut changed_any = false;
        for (name, v) in &self.variants {
            let h = search(&store, v);
            ctx.count("variant_searches", 1);
            if *v != self.base {
                changed_any = true;
                ctx.label(name);
            }
            if h != reference {
                return ctx.fail(name, "", format!("lang={} base query {:?} -> {:?}; variant {:?} -> {:?}; records {:?}", w.lang, self.base, reference, v, h, w.recs));
            }
        }
        let recs2: Vec<Rec> = w.recs.iter().zip(self.decomposed_titles.iter()).map(|(r, t)| (r.0, t.clone(), r.2)).collect();
        if recs2 != w.recs {
            let mut store2 = build_store(w.lang, &recs2, w.limit);
            store2.highlight_with((&w.markers.0, &w.markers.1));
            let h = search(&store2, &self.base);
            changed_any = true;
            ctx.label("stored-decomposed");
            if h != reference {
                return ctx.fail("stored-decomposed", "", format!("lang={} query {:?}: titles stored precomposed {:?} -> {:?}; stored decomposed {:?} -> {:?}", w.lang, self.base, w.recs, reference, recs2, h));
            }
        }
        ctx.label_if(reference.is_empty(), "base-without-hits");
        if changed_any && !reference.is_empty() {
            ctx.nontrivial();
        }
        Ok(())
    }
}

pub fn def() -> PropDef {
    PropDef {
        id: "C11",
        title: "Search ignores letter case, Unicode composition form and the language's accents",
        rule: "random worlds (1-6 records, any limit) whose titles and base query are rewritten with precomposed letters only; per base query five variants over random subsets of positions: other-case form (letters whose case mapping is one-to-one and round-trips; ß/ẞ excluded), inventory letters of the store's language written base + combining mark, inventory letters folded (ö→o, ß→ss, œ→oe, ё→е ...), 1-3 split-class separators prefixed, re-case and decompose together; plus the same titles stored decomposed. Inventories and decompositions are the pinned tables of the language at this commit. Oracle: exact equality of hit lists and highlighted titles. Non-trivial = some variant differs from the base and the base query has >= 1 hit; distinct = distinct case",
        assumptions: &["pinned per-language inventories: harness/src/tables.rs"],
        spaces: vec![Space { name: "world", decode, plan: |t| Plan::Random(t.n(200_000, 3_000_000)) }],
        differential: false,
        floors: &[("variant_searches", 4.0)],
    }
}
