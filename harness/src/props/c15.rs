//! C15 - tokenisation keeps every letter and digit, in well-formed words.

use crate::core::*;
use crate::gen::*;
use crate::model::*;
use crate::source::Source;
use lucid_suggest_core::tokenization::tokenize_record;
use lucid_suggest_core::*;
use serde_json::{json, Value};

#[derive(Clone, Debug, Hash)]
pub struct C15Case {
    pub lang: &'static str,
    pub text: String,
    /// tokenise every prefix of the text, one after the other, with the same `Lang` (typing)
    pub typing: bool,
}

/// 15-character adversarial alphabet per language (exhaustive space)
pub fn small_alphabet(lang: &str) -> Vec<char> {
    let (letter, upper, accented, base, mark, expanding) = match lang {
        "de" => ('a', 'B', 'ö', 'o', '\u{308}', 'ß'),
        "fr" => ('a', 'B', 'é', 'e', '\u{301}', 'œ'),
        "es" => ('a', 'B', 'ñ', 'n', '\u{303}', 'ß'),
        "pt" => ('a', 'B', 'ã', 'a', '\u{303}', 'ß'),
        "ru" => ('а', 'Б', 'ё', 'е', '\u{308}', 'ß'),
        _ => ('a', 'B', 'é', 'e', '\u{301}', 'ß'),
    };
    vec![letter, upper, accented, base, mark, expanding, '1', ' ', '-', '\'', '\0', '\u{a0}', 'ǅ', 'ℂ', '𝐀']
}

pub fn decode_small(src: &mut Source) -> Box<dyn Case> {
    let lang = gen_lang(src);
    let alpha = small_alphabet(lang);
    let n = src.below(6);
    let text: String = (0..n).map(|_| alpha[src.below(alpha.len())]).collect();
    Box::new(C15Case { lang, text, typing: false })
}

pub fn enumerate_small(maxlen: usize) -> Box<dyn Iterator<Item = Vec<u32>> + Send> {
    // [lang, len, c1..clen]
    let mut all: Vec<Vec<u32>> = Vec::new();
    for lang in 0..7u32 {
        for len in 0..=maxlen {
            let mut idx = vec![0u32; len];
            loop {
                let mut v = vec![lang, len as u32];
                v.extend(idx.iter());
                all.push(v);
                let mut k = len;
                loop {
                    if k == 0 {
                        break;
                    }
                    k -= 1;
                    if idx[k] + 1 < 15 {
                        idx[k] += 1;
                        for x in idx.iter_mut().skip(k + 1) {
                            *x = 0;
                        }
                        k = usize::MAX;
                        break;
                    }
                }
                if k != usize::MAX {
                    break;
                }
            }
        }
    }
    Box::new(all.into_iter())
}

pub fn decode_random(src: &mut Source) -> Box<dyn Case> {
    let lang = gen_lang_ext(src);
    let text = match src.weighted(&[4, 3, 2, 1]) {
        0 => gen_adversarial_text(src, lang, 40),
        1 => {
            let vocab = gen_vocab(src, lang, Flavor::Adversarial, 2, 5);
            gen_title(src, lang, &vocab, Flavor::Adversarial)
        }
        2 => gen_adversarial_text(src, lang, 200),
        _ => {
            let n = src.below(30);
            (0..n).map(|_| gen_any_char(src)).collect()
        }
    };
    let typing = src.chance(1, 10);
    Box::new(C15Case { lang, text, typing })
}

pub fn check_tokens(ctx: &mut Ctx, lang_code: &str, text: &str, t: &TextOwn, is_query: bool, table: &std::collections::BTreeMap<(char, char), char>) -> Result<(), Violation> {
    let which = if is_query { "tokenize_query" } else { "tokenize_record" };
    let d = |extra: String| format!("{} lang={} text={:?} -> words={:?} source={:?} chars={:?} {}", which, lang_code, text, t.words.iter().map(|w| (w.slice, w.stem, w.fin)).collect::<Vec<_>>(), t.source.iter().collect::<String>(), t.chars.iter().collect::<String>(), extra);
    if t.source.len() != t.chars.len() || t.classes.len() != t.chars.len() {
        return ctx.fail("array-lengths", "", d(format!("source {} chars {} classes {}", t.source.len(), t.chars.len(), t.classes.len())));
    }
    let n = t.chars.len();
    let mut prev_end = 0usize;
    let mut covered = vec![0u8; n];
    for (k, w) in t.words.iter().enumerate() {
        if w.offset != k {
            ctx.fail("word-numbering", "", d(format!("word {} has offset {}", k, w.offset)))?;
        }
        if w.slice.0 >= w.slice.1 {
            ctx.fail("empty-word", "", d(format!("word {}", k)))?;
            continue;
        }
        if w.slice.1 > n {
            ctx.fail("out-of-bounds", "", d(format!("word {}", k)))?;
            continue;
        }
        if w.slice.0 < prev_end {
            ctx.fail("order-overlap", "", d(format!("word {}", k)))?;
        }
        prev_end = w.slice.1;
        let ch = &t.chars[w.slice.0..w.slice.1];
        if !ch[0].is_alphanumeric() || !ch[ch.len() - 1].is_alphanumeric() {
            ctx.fail("edge-not-alphanumeric", "", d(format!("word {}", k)))?;
        }
        for &c in ch {
            if c.is_whitespace() || c.is_control() || is_punct(c) {
                ctx.fail("separator-inside-word", "", d(format!("word {} char {:?}", k, c)))?;
            }
            if c.is_uppercase() {
                let caseless = c.to_lowercase().next() == Some(c) && c.to_lowercase().count() == 1;
                ctx.fail("upper-case", if caseless { "caseless-capital" } else { "" }, d(format!("word {} char {:?} (U+{:04X})", k, c, c as u32)))?;
            }
        }
        if w.stem < 1 || w.stem > ch.len() {
            ctx.fail("stem-range", "", d(format!("word {} stem {}", k, w.stem)))?;
        }
        for p in w.slice.0..w.slice.1 {
            covered[p] = covered[p].saturating_add(1);
        }
        if !is_query && !w.fin {
            ctx.fail("record-word-unfinished", "", d(format!("word {}", k)))?;
        }
        if is_query {
            let last = k == t.words.len() - 1;
            let nothing_follows = w.slice.1 == n;
            let expect_fin = !(last && nothing_follows);
            if w.fin != expect_fin {
                ctx.fail("query-fin-rule", "", d(format!("word {} fin={} expected {}", k, w.fin, expect_fin)))?;
            }
        }
    }
    for (p, &c) in t.chars.iter().enumerate() {
        if c.is_alphanumeric() && covered[p] != 1 {
            ctx.fail("alnum-coverage", "", d(format!("position {} char {:?} covered {} times", p, c, covered[p])))?;
        }
    }
    let inp: Vec<char> = text.chars().collect();
    let a: Vec<char> = t.source.iter().cloned().filter(|&c| c != '\0').collect();
    let b: Vec<char> = compose_model(table, &inp).into_iter().filter(|&c| c != '\0').collect();
    if a != b {
        ctx.fail("source-is-composed-input", "", d(format!("expected {:?}", b.iter().collect::<String>())))?;
    }
    Ok(())
}

impl Case for C15Case {
    fn describe(&self) -> Value {
        json!({"lang": self.lang, "typed_keystroke_by_keystroke": self.typing, "text": show(&self.text), "codepoints": self.text.chars().map(|c| format!("{:04X}", c as u32)).collect::<Vec<_>>().join(" ")})
    }
    fn key(&self) -> u64 {
        hash64(self)
    }
    fn check(&self, ctx: &mut Ctx) -> Result<(), Violation> {
        let l = lang_of(self.lang);
        let table = compose_table_for(self.lang);
        if self.typing {
            // keystroke by keystroke with one language object: its scratch buffers see the previous
            // (shorter) text every time
            let cs: Vec<char> = self.text.chars().collect();
            for n in 1..cs.len() {
                let t: String = cs[..n].iter().collect();
                let tq = tokenize_query(&t, &l);
                check_tokens(ctx, self.lang, &t, &tq, true, table)?;
            }
            ctx.label("typed-keystroke-by-keystroke");
        }
        let tr = tokenize_record(&self.text, &l);
        let tq = tokenize_query(&self.text, &l);
        check_tokens(ctx, self.lang, &self.text, &tr, false, table)?;
        check_tokens(ctx, self.lang, &self.text, &tq, true, table)?;
        let nchars = self.text.chars().count();
        let padded = tr.source.len() != nchars && tr.source.contains(&'\0') && !self.text.contains('\0');
        let composed = tr.source.iter().filter(|&&c| c != '\0').count() < self.text.chars().filter(|&c| c != '\0').count();
        let stripped = tr.words.iter().map(|w| w.slice.1 - w.slice.0).sum::<usize>() < tr.chars.iter().filter(|c| !is_split_char(**c)).count();
        ctx.label_if(tr.words.len() >= 2, ">=2-words");
        ctx.label_if(padded, "padded");
        ctx.label_if(composed, "composed");
        ctx.label_if(stripped, "stripped-edge");
        ctx.label_if(tr.words.iter().any(|w| w.stem < w.slice.1 - w.slice.0), "stem<len");
        ctx.label_if(tq.words.last().map(|w| !w.fin).unwrap_or(false), "query-unfinished");
        ctx.label_if(tr.words.is_empty(), "no-words");
        ctx.count("words", (tr.words.len() + tq.words.len()) as u64);
        if tr.words.len() >= 2 || padded || composed || stripped {
            ctx.nontrivial();
        }
        Ok(())
    }
}

pub fn def() -> PropDef {
    PropDef {
        id: "C15",
        title: "Tokenisation keeps every letter and digit, in well-formed words",
        rule: "space 'small': every string up to length 4 (quick) / 5 (thorough) over a 15-character adversarial alphabet per language (letter, upper-case, accented, base, combining mark, expanding letter, digit, space, '-', apostrophe, NUL, NBSP, title-case, caseless capital, astral letter), all 7 languages, both tokenisers per case - enumerated completely; space 'random': texts up to 200 chars from the adversarial and full-range Unicode generators. Non-trivial = the record tokenisation has >= 2 words, or a padded, composed or edge-stripped character; distinct = distinct (language, text)",
        assumptions: &[
            "composition model = left-to-right longest match over the (base, mark) pairs the language itself reports for Latin/Cyrillic bases and marks U+0300-036F",
            "known finding D4 (caseless capitals) is excluded by signature and counted",
        ],
        spaces: vec![
            Space { name: "small", decode: decode_small, plan: |t| match t { Tier::Quick => Plan::Enumerate(enumerate_small(4), true, "all strings of length <= 4 over the 15-character alphabet x 7 languages"), Tier::Thorough => Plan::Enumerate(enumerate_small(5), true, "all strings of length <= 5 over the 15-character alphabet x 7 languages") } },
            Space { name: "random", decode: decode_random, plan: |t| Plan::Random(t.n(400_000, 8_000_000)) },
        ],
        differential: false,
        floors: &[("words", 0.5)],
    }
}
