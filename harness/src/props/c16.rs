//! C16 - laws of the weighted Damerau-Levenshtein distance (needs the verif re-export hook).

use crate::core::*;
use crate::model::{dl, lev};
use crate::source::Source;
use lucid_suggest_core::verif::DamerauLevenshtein;
use lucid_suggest_core::*;
use serde_json::{json, Value};

/// 2 vowels, 2 consonants, a digit (NotAlpha), an unclassified letter
pub const ALPHA: [char; 6] = ['a', 'e', 'b', 'k', '1', 'é'];

#[derive(Clone, Debug, Hash)]
pub struct C16Case {
    /// calls made in this order on one long-lived instance
    pub pairs: Vec<(String, String)>,
    pub exhaustive_cells: bool,
    pub warmup: bool,
}

fn gen_len16(src: &mut Source) -> usize {
    // around each matrix growth step: initial 22, then 1.5x of what is needed
    match src.weighted(&[40, 8, 8, 8, 4, 1]) {
        5 => src.range(126, 200),
        0 => src.below(9),
        1 => src.range(18, 23),
        2 => src.range(30, 36),
        3 => src.range(47, 53),
        _ => src.range(70, 90),
    }
}

/// letters whose code points collide when reduced to a small table (equal modulo 256 / 128):
/// a (61) š (161) ɡ (261) ѡ (461); 1 (31) ı (131) б (431); k (6B) ū (16B)
pub const ALPHA_COLLIDE: [char; 9] = ['a', 'š', 'ɡ', 'ѡ', '1', 'ı', 'б', 'k', 'ū'];

/// a long token in which (almost) every character is different: more than 64 distinct letters
fn gen_diverse_word(src: &mut Source) -> Vec<char> {
    let pool: Vec<char> = crate::gen::SCRIPTS.iter().flat_map(|s| s.chars()).filter(|c| c.is_alphabetic()).collect();
    let n = src.range(66, 120);
    let start = src.below(pool.len());
    let mut v: Vec<char> = (0..n).map(|i| pool[(start + i * 7) % pool.len()]).collect();
    // a swapped neighbouring pair near the end is what the other word of the pair will carry
    let i = src.range(n - 6, n - 2);
    v.swap(i, i + 1);
    v
}

fn gen_word16(src: &mut Source, n: usize) -> Vec<char> {
    if src.chance(1, 40) {
        return gen_diverse_word(src);
    }
    let collide = src.chance(1, 4);
    let k = if collide { src.range(2, 9) } else { src.range(2, 6) };
    let mut v: Vec<char> = Vec::with_capacity(n);
    for _ in 0..n {
        if !v.is_empty() && src.chance(1, 6) {
            v.push(*v.last().unwrap()); // doubled letter
        } else if collide {
            v.push(ALPHA_COLLIDE[src.below(k)]);
        } else {
            v.push(ALPHA[src.below(k)]);
        }
    }
    v
}

pub fn decode_random(src: &mut Source) -> Box<dyn Case> {
    let mut pairs = Vec::new();
    while pairs.len() < 6 && (pairs.is_empty() || src.chance(3, 4)) {
        if !pairs.is_empty() && src.chance(1, 4) {
            // the same first word again, the second word extended (typing ahead / the next, longer
            // record word with the same beginning) - possibly across a matrix growth step
            let (a, b): (String, String) = pairs.last().cloned().unwrap();
            let extra = gen_len16(src).max(1);
            let mut b2: Vec<char> = b.chars().collect();
            b2.extend(gen_word16(src, extra));
            pairs.push((a, b2.into_iter().collect()));
            continue;
        }
        let la = gen_len16(src);
        let a = gen_word16(src, la);
        let b: Vec<char> = if src.chance(1, 2) {
            // one to three edits apart
            let mut v = a.clone();
            for _ in 0..src.range(1, 3) {
                if v.is_empty() {
                    v.push(ALPHA[src.below(6)]);
                    continue;
                }
                let k = src.below(v.len());
                match src.below(4) {
                    0 => {
                        v.remove(k);
                    }
                    1 => v.insert(k, ALPHA[src.below(6)]),
                    2 => v[k] = ALPHA[src.below(6)],
                    _ => {
                        if k + 1 < v.len() {
                            v.swap(k, k + 1);
                        }
                    }
                }
            }
            v
        } else {
            let lb = gen_len16(src);
            gen_word16(src, lb)
        };
        pairs.push((a.into_iter().collect(), b.into_iter().collect()));
    }
    Box::new(C16Case { pairs, exhaustive_cells: false, warmup: false })
}

/// pool-based call sequences on one instance: few words (some of them extensions of others,
/// across the matrix growth steps), compared in random (first, second) combinations
#[derive(Clone, Debug, Hash)]
pub struct C16Calls {
    pub pool: Vec<String>,
    pub calls: Vec<(usize, usize)>,
}

pub fn decode_calls(src: &mut Source) -> Box<dyn Case> {
    let np = src.range(2, 5);
    let mut pool: Vec<Vec<char>> = Vec::new();
    for _ in 0..np {
        let v: Vec<char> = match src.weighted(&[5, 3, 2, 1]) {
            1 if !pool.is_empty() => {
                let mut v = src.pick(&pool).clone();
                let extra = gen_len16(src).max(1);
                v.extend(gen_word16(src, extra));
                v
            }
            2 if !pool.is_empty() => {
                let mut v = src.pick(&pool).clone();
                if !v.is_empty() {
                    let k = src.below(v.len());
                    match src.below(3) {
                        0 => {
                            v.remove(k);
                        }
                        1 => v.insert(k, ALPHA[src.below(6)]),
                        _ => {
                            if k + 1 < v.len() {
                                v.swap(k, k + 1)
                            }
                        }
                    }
                }
                v
            }
            3 => vec![ALPHA[src.below(6)]],
            _ => {
                let n = gen_len16(src);
                gen_word16(src, n)
            }
        };
        pool.push(v);
    }
    let mut calls = Vec::new();
    while calls.len() < 10 && (calls.len() < 3 || src.chance(5, 6)) {
        calls.push((src.below(pool.len()), src.below(pool.len())));
    }
    // (k -> s in a third of the cases: doubled s is what German spells ß)
    let ks = src.chance(1, 3);
    Box::new(C16Calls { pool: pool.into_iter().map(|v| v.into_iter().map(|c| if ks && c == 'k' { 's' } else { c }).collect()).collect(), calls })
}

impl Case for C16Calls {
    fn describe(&self) -> Value {
        json!({"pool": self.pool, "calls_first_second": self.calls, "words_spelled_with_capitals_and_eszett_through_the_german_record_tokeniser": self.calls.len() % 2 == 0})
    }
    fn key(&self) -> u64 {
        hash64(self)
    }
    fn check(&self, ctx: &mut Ctx) -> Result<(), Violation> {
        let lang = lang_english();
        let shared = DamerauLevenshtein::new();
        // half of the cases: the words go through the record tokeniser of a folding language, so that
        // their original spelling (capitals, ß) differs from the normalised characters the distance
        // is defined on; the distance may depend on the normalised word only
        let via_tokeniser = self.calls.len() % 2 == 0;
        let de = lang_german();
        let texts: Vec<TextOwn> = self
            .pool
            .iter()
            .enumerate()
            .map(|(i, w)| {
                if via_tokeniser {
                    let spelled: String = w.chars().enumerate().map(|(k, c)| if (k + i) % 3 == 0 { c.to_uppercase().next().unwrap_or(c) } else { c }).collect::<String>().replace("ss", "ß");
                    let t = lucid_suggest_core::tokenization::tokenize_record(&spelled, &de);
                    if t.words.len() == 1 { t } else { text(&w.chars().collect::<Vec<_>>(), &lang) }
                } else {
                    text(&w.chars().collect::<Vec<_>>(), &lang)
                }
            })
            .collect();
        // reference texts: the normalised characters alone (source == chars), same classes
        let plain_texts: Vec<TextOwn> = texts.iter().map(|t| { let w = &t.words[0]; let cs: Vec<char> = t.chars[w.slice.0..w.slice.1].to_vec(); let mut p = Text::from_vec(cs); p.classes = t.classes[w.slice.0..w.slice.1].to_vec(); p }).collect();
        let mut any = false;
        for (n, &(i, j)) in self.calls.iter().enumerate() {
            let d = shared.distance(&texts[i].view(0), &texts[j].view(0));
            let fresh = DamerauLevenshtein::new();
            let df = fresh.distance(&plain_texts[i].view(0), &plain_texts[j].view(0));
            let info = |x: String| format!("call #{} distance({:?}, {:?}): {}; earlier calls on the same instance (pool indices) {:?}, pool {:?}", n, self.pool[i], self.pool[j], x, &self.calls[..n], self.pool);
            if d != df {
                return ctx.fail("history-independence", "", info(format!("long-lived instance says {} a fresh instance on the bare normalised words says {} (via tokeniser: {})", d, df, via_tokeniser)));
            }
            // every cell word_match may read must equal what a fresh instance leaves behind
            let (la, lb) = (self.pool[i].chars().count(), self.pool[j].chars().count());
            let ms = shared.dists.borrow();
            let mf = fresh.dists.borrow();
            let step = if la * lb > 400 { 3 } else { 1 };
            let mut a = 0;
            while a <= la {
                let mut b = 0;
                while b <= lb {
                    ctx.count("prefix_cells", 1);
                    if ms.get(a + 1, b + 1) != mf.get(a + 1, b + 1) {
                        return ctx.fail("prefix-cell", "", info(format!("cell for prefixes ({}, {}) holds {} on the long-lived instance and {} on a fresh one", a, b, ms.get(a + 1, b + 1), mf.get(a + 1, b + 1))));
                    }
                    b += step;
                }
                a += step;
            }
            if d > 0.0 {
                any = true;
            }
        }
        ctx.label_if(self.pool.iter().any(|w| w.chars().count() > 20), "beyond-initial-capacity");
        if any {
            ctx.nontrivial();
        }
        Ok(())
    }
}

/// The distance instance production uses lives in a thread-local behind `Store::search`; this
/// space drives it through the registry (create / add / search / destroy the last store / create
/// again / search) and compares every answer with a stand-alone store in a fresh thread.
#[derive(Clone, Debug, Hash)]
pub struct C16Registry {
    pub lang: &'static str,
    pub rounds: Vec<(Vec<String>, Vec<String>)>,
}

pub fn decode_registry(src: &mut Source) -> Box<dyn Case> {
    let lang = crate::gen::gen_lang(src);
    let plain = crate::gen::plain_letters(lang);
    let mut word = |src: &mut Source| -> String {
        let n = gen_len16(src).max(1).min(60);
        let k = src.range(2, 8);
        (0..n).map(|_| plain[src.below(k)]).collect()
    };
    let nr = src.range(2, 3);
    let mut rounds = Vec::new();
    for _ in 0..nr {
        let titles: Vec<String> = (0..src.range(1, 3)).map(|_| format!("{} {}", word(src), word(src))).collect();
        let queries: Vec<String> = (0..src.range(1, 3))
            .map(|_| {
                let t = src.pick(&titles).clone();
                let mut w: Vec<char> = t.split(' ').next().unwrap_or("").chars().collect();
                if src.chance(1, 2) {
                    crate::gen::gen_edit(src, lang, &mut w);
                }
                if src.chance(1, 3) && w.len() > 1 {
                    let m = 1 + src.below(w.len());
                    w.truncate(m);
                }
                w.into_iter().collect()
            })
            .collect();
        rounds.push((titles, queries));
    }
    Box::new(C16Registry { lang, rounds })
}

impl Case for C16Registry {
    fn describe(&self) -> Value {
        json!({"lang": self.lang, "rounds_create_add_search_destroy": self.rounds})
    }
    fn key(&self) -> u64 {
        hash64(self)
    }
    fn check(&self, ctx: &mut Ctx) -> Result<(), Violation> {
        let mut any = false;
        for (ri, (titles, queries)) in self.rounds.iter().enumerate() {
            lucid_suggest_core::create_store(1, crate::gen::lang_of(self.lang));
            for (i, t) in titles.iter().enumerate() {
                lucid_suggest_core::add_record(1, i + 1, t, i);
            }
            for q in queries {
                lucid_suggest_core::run_search(1, q);
                let got: Vec<(usize, String)> = lucid_suggest_core::using_results(1, |r| r.iter().map(|x| (x.id, x.title.clone())).collect());
                let (lang, ts, q2) = (self.lang, titles.clone(), q.clone());
                let exp = isolated(move || {
                    let recs: Vec<crate::gen::Rec> = ts.iter().enumerate().map(|(i, t)| (i + 1, t.clone(), i)).collect();
                    crate::gen::search(&crate::gen::build_store(lang, &recs, 10), &q2)
                });
                ctx.count("prefix_cells", 1);
                match exp {
                    Ok(e) => {
                        if e != got {
                            return ctx.fail("history-independence", "through-search", format!("lang={} round {} (after {} destroy/create cycles on this thread) titles={:?} query={:?}: this thread returns {:?}, a fresh thread returns {:?}", self.lang, ri, ri, titles, q, got, e));
                        }
                        if !e.is_empty() {
                            any = true;
                        }
                    }
                    Err(e) => return ctx.fail("history-independence", "through-search", format!("fresh-thread search panicked: {}", e)),
                }
            }
            lucid_suggest_core::destroy_store(1);
        }
        ctx.label_if(self.rounds.iter().any(|(t, _)| t.iter().any(|x| x.split(' ').any(|w| w.chars().count() > 20))), "beyond-initial-capacity");
        if any {
            ctx.nontrivial();
        }
        Ok(())
    }
}

pub fn decode_small(src: &mut Source) -> Box<dyn Case> {
    let la = src.below(5);
    let a: String = (0..la).map(|_| ALPHA[src.below(6)]).collect();
    let lb = src.below(5);
    let b: String = (0..lb).map(|_| ALPHA[src.below(6)]).collect();
    Box::new(C16Case { pairs: vec![(a, b)], exhaustive_cells: true, warmup: true })
}

fn words_up_to(maxlen: usize) -> Vec<Vec<u32>> {
    let mut out = vec![vec![0u32]];
    let mut cur: Vec<Vec<u32>> = vec![vec![]];
    for len in 1..=maxlen {
        let mut next = Vec::new();
        for w in &cur {
            for c in 0..6u32 {
                let mut x = w.clone();
                x.push(c);
                next.push(x);
            }
        }
        for w in &next {
            let mut v = vec![len as u32];
            v.extend(w.iter());
            out.push(v);
        }
        cur = next;
    }
    out
}

pub fn enumerate_pairs(maxlen: usize) -> Box<dyn Iterator<Item = Vec<u32>> + Send> {
    let ws = words_up_to(maxlen);
    let ws2 = ws.clone();
    Box::new(ws.into_iter().flat_map(move |a| {
        let ws2 = ws2.clone();
        ws2.into_iter().map(move |b| {
            let mut v = a.clone();
            v.extend(b.iter());
            v
        })
    }))
}

fn text(s: &[char], lang: &Lang) -> TextOwn {
    Text::from_vec(s.to_vec()).set_char_classes(lang)
}

impl Case for C16Case {
    fn describe(&self) -> Value {
        json!({"calls_on_one_instance": self.pairs.iter().map(|(a, b)| json!([a, b])).collect::<Vec<_>>(), "warmup_call_first": self.warmup})
    }
    fn key(&self) -> u64 {
        hash64(self)
    }
    fn check(&self, ctx: &mut Ctx) -> Result<(), Violation> {
        let lang = lang_english();
        let shared = DamerauLevenshtein::new();
        if self.warmup {
            let w1 = text(&"kabeka1e".chars().collect::<Vec<_>>(), &lang);
            let w2 = text(&"ebak".chars().collect::<Vec<_>>(), &lang);
            shared.distance(&w1.view(0), &w2.view(0));
        }
        let mut prev_len = 0usize;
        for (a, b) in &self.pairs {
            let ca: Vec<char> = a.chars().collect();
            let cb: Vec<char> = b.chars().collect();
            let ta = text(&ca, &lang);
            let tb = text(&cb, &lang);
            let na = Text::from_vec(ca.clone());
            let nb = Text::from_vec(cb.clone());
            let size_before = shared.dists.borrow().size();
            let d = shared.distance(&ta.view(0), &tb.view(0));
            let info = |x: String| format!("a={:?} b={:?} {}", a, b, x);
            // prefix cells: what word_match reads after distance(q, r)
            {
                let fresh = DamerauLevenshtein::new();
                let m = shared.dists.borrow();
                let all = self.exhaustive_cells || ca.len() + cb.len() <= 12;
                let mut cells: Vec<(usize, usize)> = Vec::new();
                if all {
                    for i in 0..=ca.len() {
                        for j in 0..=cb.len() {
                            cells.push((i, j));
                        }
                    }
                } else {
                    // deterministic sample: corners, diagonal neighbourhood of the end, a few spread cells
                    let (n, k) = (ca.len(), cb.len());
                    for &(i, j) in &[(0, 0), (n, k), (n, k.saturating_sub(1)), (n.saturating_sub(1), k), (n / 2, k / 2), (1.min(n), 1.min(k)), (n / 3, (k / 3 + 1).min(k)), (n, 0), (0, k)] {
                        cells.push((i, j));
                    }
                }
                for (i, j) in cells {
                    let pa = text(&ca[..i], &lang);
                    let pb = text(&cb[..j], &lang);
                    let dd = fresh.distance(&pa.view(0), &pb.view(0));
                    ctx.count("prefix_cells", 1);
                    if m.get(i + 1, j + 1) != dd {
                        return ctx.fail("prefix-cell", "", info(format!("cell for prefixes ({}, {}) holds {} but the prefixes' own distance is {}", i, j, m.get(i + 1, j + 1), dd)));
                    }
                }
            }
            let d2 = shared.distance(&tb.view(0), &ta.view(0));
            let df = DamerauLevenshtein::new().distance(&ta.view(0), &tb.view(0));
            let dn = shared.distance(&na.view(0), &nb.view(0));
            let l = lev(&ca, &cb) as f64;
            let u = dl(&ca, &cb) as f64;
            if d != d2 {
                return ctx.fail("symmetry", "", info(format!("d(a,b)={} d(b,a)={}", d, d2)));
            }
            if d != df {
                return ctx.fail("history-independence", "", info(format!("long-lived instance says {} a fresh instance says {}", d, df)));
            }
            if (d == 0.0) != (a == b) {
                return ctx.fail("zero-iff-equal", "", info(format!("d={}", d)));
            }
            if (d * 2.0).fract() != 0.0 || !(d >= 0.0) {
                return ctx.fail("multiple-of-half", "", info(format!("d={}", d)));
            }
            if d > l {
                return ctx.fail("at-most-levenshtein", "", info(format!("d={} lev={}", d, l)));
            }
            if d < 0.5 * u {
                return ctx.fail("at-least-half-damerau", "", info(format!("d={} unrestricted DL={}", d, u)));
            }
            if d > dn {
                return ctx.fail("discounts-only-lower", "", info(format!("with classes {} > without classes {}", d, dn)));
            }
            if dn > l {
                return ctx.fail("at-most-levenshtein", "", info(format!("classless d={} lev={}", dn, l)));
            }
            let maxlen = ca.len().max(cb.len());
            let grew = maxlen + 2 > size_before;
            let has_rep = ca.windows(2).any(|w| w[0] == w[1]) || cb.windows(2).any(|w| w[0] == w[1]);
            let transposable = ca.windows(2).any(|w| w[0] != w[1] && cb.windows(2).any(|x| x[0] == w[1] && x[1] == w[0]));
            ctx.label_if(grew, "grew-matrix");
            ctx.label_if(maxlen < prev_len && prev_len > 20, "short-after-long");
            ctx.label_if(has_rep, "doubled-letter");
            ctx.label_if(transposable, "transposable-pair");
            ctx.label_if(d < l, "discounted");
            ctx.label_if(ca.iter().chain(cb.iter()).any(|c| *c as u32 > 0xff), "non-latin1-letters");
            if d > 0.0 && (has_rep || transposable) {
                ctx.nontrivial();
            }
            prev_len = maxlen;
        }
        Ok(())
    }
}

pub fn def() -> PropDef {
    PropDef {
        id: "C16",
        title: "The typo distance obeys the laws of a weighted Damerau-Levenshtein distance",
        rule: "space 'small': every ordered pair of words up to length 3 (quick) / 4 (thorough) over {a,e,b,k,1,é} (2 vowels, 2 consonants, digit, unclassified), each after a warm-up call on the same instance, all prefix cells compared - enumerated completely; space 'random': 1-6 calls on one long-lived instance with lengths around each matrix growth step (0-8, 18-23, 30-36, 47-53, 70-90), half of them 1-3 edits apart, doubled letters injected. References: own Levenshtein, own unrestricted Damerau-Levenshtein, fresh instance per comparison. Non-trivial = d > 0 and a doubled letter or a transposable pair is present; distinct = distinct call sequence",
        assumptions: &["no exact value is asserted, only the stated laws", "character classes are those of lang_english (vowel/consonant), digits NotAlpha, others Any"],
        spaces: vec![
            Space { name: "small", decode: decode_small, plan: |t| match t { Tier::Quick => Plan::Enumerate(enumerate_pairs(3), true, "all ordered pairs of words of length <= 3 over 6 symbols"), Tier::Thorough => Plan::Enumerate(enumerate_pairs(4), true, "all ordered pairs of words of length <= 4 over 6 symbols") } },
            Space { name: "random", decode: decode_random, plan: |t| Plan::Random(t.n(200_000, 4_000_000)) },
            Space { name: "calls", decode: decode_calls, plan: |t| Plan::Random(t.n(120_000, 2_500_000)) },
            Space { name: "through-search", decode: decode_registry, plan: |t| Plan::Random(t.n(40_000, 800_000)) },
        ],
        differential: false,
        floors: &[("prefix_cells", 5.0)],
    }
}
