//! C17 - the Jaccard pre-filter computes the true set similarity (needs the verif re-export hook).

use crate::core::*;
use crate::source::Source;
use lucid_suggest_core::verif::Jaccard;
use serde_json::{json, Value};
use std::collections::BTreeSet;

#[derive(Clone, Debug, Hash)]
pub struct C17Case {
    pub pairs: Vec<(Vec<char>, Vec<char>)>,
    /// permutation seeds for the metamorphic variants
    pub perm: Vec<u32>,
    pub warmup: bool,
}

fn sym(i: usize) -> char {
    // 30 symbols; unordered code points so that sorting matters
    const S: &[char] = &['m', 'a', 'z', 'c', 'ё', 'b', '1', 'é', 'y', 'd', 'k', 'q', '9', 'ß', 'o', 'e', 'x', 'n', 'u', 'ø', 'i', 'r', 'а', 'я', 't', 'g', 'h', 'p', '0', 'w'];
    S[i % S.len()]
}

fn gen_seq(src: &mut Source, k: usize) -> Vec<char> {
    let n = match src.weighted(&[8, 3, 2, 1]) {
        0 => src.below(8),
        1 => src.range(15, 24),
        2 => src.range(25, 45),
        _ => src.range(60, 90),
    };
    (0..n).map(|_| sym(src.below(k))).collect()
}

pub fn decode_random(src: &mut Source) -> Box<dyn Case> {
    let mut pairs = Vec::new();
    while pairs.len() < 6 && (pairs.is_empty() || src.chance(3, 4)) {
        let k = *src.pick(&[2usize, 3, 4, 6, 10, 30]);
        let a = if !pairs.is_empty() && src.chance(1, 3) {
            // same length as the previous first argument, other content
            let n = pairs.last().map(|p: &(Vec<char>, Vec<char>)| p.0.len()).unwrap_or(0);
            (0..n).map(|_| sym(src.below(k))).collect()
        } else {
            gen_seq(src, k)
        };
        let b = if src.chance(1, 3) {
            let mut v = a.clone();
            if !v.is_empty() {
                let i = src.below(v.len());
                v[i] = sym(src.below(k));
            }
            if src.chance(1, 2) {
                v.push(sym(src.below(k)));
            }
            v
        } else {
            gen_seq(src, k)
        };
        pairs.push((a, b));
    }
    let perm = (0..8).map(|_| src.below(1 << 16) as u32).collect();
    Box::new(C17Case { pairs, perm, warmup: false })
}

/// pool-based call sequences: few distinct sequences (many of them 0-2 items long), called in
/// random (first, second) combinations on one instance - the same content comes back in either
/// position again and again
#[derive(Clone, Debug, Hash)]
pub struct C17Calls {
    pub pool: Vec<Vec<char>>,
    pub calls: Vec<(usize, usize)>,
    /// per call, how the two arguments are laid out in memory: 0 = two fresh copies, 1 = two views
    /// of one buffer starting at the same element (when one is a prefix of the other), 2 = two
    /// adjacent views of one arena `a ++ b`, 3 = the pool entries themselves (stable addresses)
    pub layout: Vec<u8>,
}

pub fn decode_calls(src: &mut Source) -> Box<dyn Case> {
    let k = *src.pick(&[2usize, 3, 4, 6, 10]);
    let np = src.range(2, 5);
    let mut pool: Vec<Vec<char>> = Vec::new();
    for _ in 0..np {
        let v: Vec<char> = match src.weighted(&[4, 4, 3, 2, 2, 3]) {
            5 if !pool.is_empty() => {
                // an earlier entry with its last item dropped, or with one item typed onto it
                let mut v = src.pick(&pool).clone();
                if !v.is_empty() && src.chance(1, 2) {
                    v.pop();
                } else {
                    let c = if !v.is_empty() && src.chance(1, 2) { v[src.below(v.len())] } else { sym(src.below(k)) };
                    v.push(c);
                }
                v
            }
            0 => vec![sym(src.below(k))],
            1 => (0..2).map(|_| sym(src.below(k))).collect(),
            2 => gen_seq(src, k),
            3 if !pool.is_empty() => {
                // an earlier entry extended
                let mut v = src.pick(&pool).clone();
                for _ in 0..src.range(1, 25) {
                    v.push(sym(src.below(k)));
                }
                v
            }
            _ => Vec::new(),
        };
        pool.push(v);
    }
    let mut calls = Vec::new();
    // now and then a long session (buffers that grew get their chance to be given back)
    let (cap, num) = if src.chance(1, 25) { (140, 40) } else { (12, 5) };
    while calls.len() < cap && (calls.len() < 3 || src.chance(num, num + 1)) {
        calls.push((src.below(pool.len()), src.below(pool.len())));
    }
    // where the arguments live is not part of the property: any two slices are "two character sequences"
    let layout: Vec<u8> = (0..calls.len()).map(|_| src.weighted(&[5, 2, 1, 1]) as u8).collect();
    Box::new(C17Calls { pool, calls, layout })
}

impl Case for C17Calls {
    fn describe(&self) -> Value {
        json!({"pool": self.pool.iter().map(|v| v.iter().collect::<String>()).collect::<Vec<_>>(), "calls_first_second": self.calls, "layout_0fresh_1prefixviews_2adjacent_3pool": self.layout})
    }
    fn key(&self) -> u64 {
        hash64(self)
    }
    fn check(&self, ctx: &mut Ctx) -> Result<(), Violation> {
        let shared: Jaccard<char> = Jaccard::new();
        let mut seen_partial = false;
        for (n, &(i, j)) in self.calls.iter().enumerate() {
            let (a, b) = (&self.pool[i], &self.pool[j]);
            let exp = reference(a, b);
            let arena: Vec<char>;
            let (a2, b2);
            let got = match self.layout[n] {
                1 if b.starts_with(a) || a.starts_with(b) => {
                    // two views of one buffer, same first element, different lengths
                    ctx.label_if(a.len() != b.len(), "aliased-prefix-views");
                    arena = if a.len() >= b.len() { a.clone() } else { b.clone() };
                    shared.similarity(&arena[..a.len()], &arena[..b.len()])
                }
                2 => {
                    arena = a.iter().chain(b.iter()).copied().collect();
                    shared.similarity(&arena[..a.len()], &arena[a.len()..])
                }
                3 => shared.similarity(a, b),
                _ => {
                    // fresh copies: same content, new addresses
                    a2 = a.clone();
                    b2 = b.clone();
                    shared.similarity(&a2, &b2)
                }
            };
            if got != exp {
                return ctx.fail("history-independence", "", format!("call #{} (argument layout {}) similarity({:?}, {:?}) = {} but |A∩B|/|A∪B| = {}; earlier calls on the same instance (pool indices): {:?}, pool {:?}", n, self.layout[n], a.iter().collect::<String>(), b.iter().collect::<String>(), got, exp, &self.calls[..n], self.pool.iter().map(|v| v.iter().collect::<String>()).collect::<Vec<_>>()));
            }
            if exp > 0.0 && exp < 1.0 {
                seen_partial = true;
            }
        }
        ctx.label_if(self.pool.iter().any(|v| v.len() > 20), "beyond-initial-capacity");
        ctx.label_if(self.pool.iter().any(|v| v.len() == 1), "one-item-sequence");
        if seen_partial {
            ctx.nontrivial();
        }
        Ok(())
    }
}

pub fn decode_small(src: &mut Source) -> Box<dyn Case> {
    let la = src.below(5);
    let a: Vec<char> = (0..la).map(|_| sym(src.below(4))).collect();
    let lb = src.below(5);
    let b: Vec<char> = (0..lb).map(|_| sym(src.below(4))).collect();
    Box::new(C17Case { pairs: vec![(a, b)], perm: vec![1, 2, 3, 4, 5, 6, 7, 8], warmup: true })
}

pub fn enumerate_pairs(maxlen: usize, k: u32) -> Box<dyn Iterator<Item = Vec<u32>> + Send> {
    let mut ws: Vec<Vec<u32>> = vec![vec![0]];
    let mut cur: Vec<Vec<u32>> = vec![vec![]];
    for len in 1..=maxlen {
        let mut next = Vec::new();
        for w in &cur {
            for c in 0..k {
                let mut x = w.clone();
                x.push(c);
                next.push(x);
            }
        }
        for w in &next {
            let mut v = vec![len as u32];
            v.extend(w.iter());
            ws.push(v);
        }
        cur = next;
    }
    let ws2 = ws.clone();
    Box::new(ws.into_iter().flat_map(move |a| {
        let ws2 = ws2.clone();
        ws2.into_iter().map(move |b| {
            let mut v = a.clone();
            v.extend(b.iter());
            v
        })
    }))
}

fn reference(a: &[char], b: &[char]) -> f64 {
    let sa: BTreeSet<char> = a.iter().cloned().collect();
    let sb: BTreeSet<char> = b.iter().cloned().collect();
    if sa.is_empty() && sb.is_empty() {
        return 1.0;
    }
    sa.intersection(&sb).count() as f64 / sa.union(&sb).count() as f64
}

fn permute(v: &[char], seed: u32) -> Vec<char> {
    let mut out = v.to_vec();
    let mut s = seed as u64 * 2654435761 + 12345;
    for k in (1..out.len()).rev() {
        s = s.wrapping_mul(6364136223846793005).wrapping_add(1442695040888963407);
        let j = ((s >> 33) as usize) % (k + 1);
        out.swap(k, j);
    }
    out
}

impl Case for C17Case {
    fn describe(&self) -> Value {
        json!({"calls_on_one_instance": self.pairs.iter().map(|(a, b)| json!([a.iter().collect::<String>(), b.iter().collect::<String>()])).collect::<Vec<_>>(), "warmup_call_first": self.warmup})
    }
    fn key(&self) -> u64 {
        hash64(&self.pairs)
    }
    fn check(&self, ctx: &mut Ctx) -> Result<(), Violation> {
        let shared: Jaccard<char> = Jaccard::new();
        if self.warmup {
            shared.similarity(&['z', 'z', 'a', 'c', 'm', 'b', '1', 'é'], &['c', 'a']);
        }
        let mut prev = 0usize;
        // two caller-side buffers overwritten in place between calls: the LAST call of one pair and
        // the FIRST call of the next pass the same addresses (and often the same lengths) with
        // different content - what a caller that recycles its word buffers does
        let mut s1: Vec<char> = Vec::with_capacity(128);
        let mut s2: Vec<char> = Vec::with_capacity(128);
        if self.warmup {
            if let Some((a, b)) = self.pairs.first() {
                // same lengths as the pair under test, rotated symbols
                s1.extend(a.iter().map(|&c| if c == 'm' { 'a' } else { 'm' }));
                s2.extend(b.iter().map(|&c| if c == 'z' { 'c' } else { 'z' }));
                shared.similarity(&s1, &s2);
            }
        }
        for (k, (a, b)) in self.pairs.iter().enumerate() {
            let exp = reference(a, b);
            s1.clear();
            s1.extend_from_slice(a);
            s2.clear();
            s2.extend_from_slice(b);
            let gs = shared.similarity(&s1, &s2);
            if gs != exp {
                return ctx.fail("history-independence", "", format!("a={:?} b={:?} similarity={} expected {} (arguments passed in buffers that were overwritten in place since the previous call)", a.iter().collect::<String>(), b.iter().collect::<String>(), gs, exp));
            }
            let info = |x: String| format!("a={:?} b={:?} {}", a.iter().collect::<String>(), b.iter().collect::<String>(), x);
            let got = shared.similarity(a, b);
            if got != exp {
                return ctx.fail("value", "", info(format!("similarity={} but |A∩B|/|A∪B|={}", got, exp)));
            }
            let got2 = shared.similarity(b, a);
            if got2 != exp {
                return ctx.fail("symmetry", "", info(format!("similarity(b,a)={} expected {}", got2, exp)));
            }
            if !(got >= 0.0 && got <= 1.0) {
                return ctx.fail("range", "", info(format!("similarity={}", got)));
            }
            let fresh: Jaccard<char> = Jaccard::new();
            let gf = fresh.similarity(a, b);
            if gf != got {
                return ctx.fail("history-independence", "", info(format!("long-lived instance {} fresh instance {}", got, gf)));
            }
            // duplication and permutation of either argument
            let ps = self.perm[k % self.perm.len()];
            let mut a2 = permute(a, ps);
            a2.extend(a.iter().take(3));
            let mut b2 = b.clone();
            b2.extend(permute(b, ps ^ 0x5555).iter());
            let gm = shared.similarity(&a2, &b2);
            if gm != exp {
                return ctx.fail("repetition-order-invariance", "", info(format!("after permuting/duplicating ({:?}, {:?}) similarity={} expected {}", a2.iter().collect::<String>(), b2.iter().collect::<String>(), gm, exp)));
            }
            let rd = shared.rel_dist(a, b);
            if rd != 1.0 - exp {
                return ctx.fail("rel-dist", "", info(format!("rel_dist={} expected {}", rd, 1.0 - exp)));
            }
            let n = a.len().max(b.len());
            ctx.label_if(n > 20, "beyond-initial-capacity");
            ctx.label_if(n < prev && prev > 20, "short-after-long");
            ctx.label_if(a.is_empty() || b.is_empty(), "empty-side");
            if !a.is_empty() && !b.is_empty() && exp > 0.0 && exp < 1.0 {
                ctx.nontrivial();
                ctx.label("partial-overlap");
            }
            prev = n;
            // leave the recycled buffers as the most recent arguments
            if shared.similarity(&s1, &s2) != exp {
                return ctx.fail("history-independence", "", info("repeated call through the recycled buffers differs".into()));
            }
        }
        Ok(())
    }
}

pub fn def() -> PropDef {
    PropDef {
        id: "C17",
        title: "The Jaccard pre-filter computes the true set similarity",
        rule: "space 'small': every ordered pair of sequences up to length 4 (quick) / 5 (thorough) over 4 symbols, each after a warm-up call - enumerated completely; space 'random': 1-6 calls on one long-lived Jaccard<char> with sequences up to length 90 over alphabets of 2-30 symbols (long/short alternation). Reference: BTreeSet arithmetic with the same division, exact f64 equality. Non-trivial = both sequences non-empty and 0 < similarity < 1; distinct = distinct call sequence",
        assumptions: &[],
        spaces: vec![
            Space { name: "small", decode: decode_small, plan: |t| match t { Tier::Quick => Plan::Enumerate(enumerate_pairs(4, 4), true, "all ordered pairs of sequences of length <= 4 over 4 symbols"), Tier::Thorough => Plan::Enumerate(enumerate_pairs(5, 4), true, "all ordered pairs of sequences of length <= 5 over 4 symbols") } },
            Space { name: "random", decode: decode_random, plan: |t| Plan::Random(t.n(300_000, 6_000_000)) },
            Space { name: "calls", decode: decode_calls, plan: |t| Plan::Random(t.n(200_000, 4_000_000)) },
        ],
        differential: false,
        floors: &[],
    }
}
