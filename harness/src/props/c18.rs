//! C18 - the trigram index returns exactly the records sharing a gram, best first.

use crate::core::*;
use crate::gen::*;
use crate::model::*;
use crate::source::Source;
use lucid_suggest_core::tokenization::tokenize_record;
use lucid_suggest_core::*;
use serde_json::{json, Value};

#[derive(Clone, Debug, Hash)]
pub struct C18Case {
    pub lang: &'static str,
    pub titles: Vec<String>,
    pub size: usize,
    pub queries: Vec<String>,
    /// the index is also asked while it is being built: (number of records added so far, query)
    pub early: Vec<(usize, String)>,
    /// number of extra prepare() calls made before the judged ones (a long typing session)
    pub session: usize,
}

/// long "pasted paragraph" queries against long titles: several hundred shared grams per record
fn decode_paragraph(src: &mut Source) -> Box<dyn Case> {
    let lang = gen_lang(src);
    let plain = plain_letters(lang);
    let nv = src.range(90, 160);
    let vocab: Vec<String> = (0..nv).map(|_| (0..src.range(3, 6)).map(|_| plain[src.below(plain.len())]).collect()).collect();
    let size = src.range(1, 2);
    let nrec = 10 * size + src.range(1, 8);
    let titles: Vec<String> = (0..nrec)
        .map(|_| {
            // each title: a long random subset of the vocabulary
            let keep = src.range(60, 100);
            vocab.iter().filter(|_| src.below(100) < keep).cloned().collect::<Vec<_>>().join(" ")
        })
        .collect();
    let keep = src.range(70, 100);
    let q = vocab.iter().filter(|_| src.below(100) < keep).cloned().collect::<Vec<_>>().join(" ");
    Box::new(C18Case { lang, titles, size, queries: vec![q], early: Vec::new(), session: 0 })
}

/// a big store in which only a few late records share the query's grams (selective queries)
fn decode_sparse(src: &mut Source) -> Box<dyn Case> {
    let lang = gen_lang(src);
    let plain = plain_letters(lang);
    let fill: Vec<String> = (0..src.range(3, 8)).map(|_| (0..src.range(2, 5)).map(|_| plain[src.below(10)]).collect()).collect();
    // rare words start with letters the fillers never use
    let rare_a: String = (0..src.range(2, 5)).map(|_| plain[20 + src.below(5)]).collect();
    let rc: Vec<char> = rare_a.chars().collect();
    let rare_b: String = format!("{}{}", rc[0], plain[12 + src.below(6)]);
    let size = src.range(1, 2);
    let nfill = src.range(400, 690);
    let mut titles: Vec<String> = (0..nfill).map(|_| format!("{} {}", src.pick(&fill), src.pick(&fill))).collect();
    // weaker matches first (share only the first letter), stronger ones last
    for _ in 0..(10 * size + src.range(1, 6)) {
        titles.push(format!("{} {}", rare_b, src.pick(&fill)));
    }
    for _ in 0..src.range(1, 5) {
        titles.push(format!("{} {}", rare_a, src.pick(&fill)));
    }
    let q1: String = rc[..2.min(rc.len())].iter().collect();
    Box::new(C18Case { lang, titles, size, queries: vec![q1, rare_a.clone()], early: Vec::new(), session: 0 })
}

/// more than a thousand records, most of them sharing the query's grams; the index is asked once
/// while it is still small, then filled up, then asked again
fn decode_huge(src: &mut Source) -> Box<dyn Case> {
    let lang = gen_lang(src);
    let plain = plain_letters(lang);
    let k = src.range(3, 6);
    let vocab: Vec<String> = (0..src.range(2, 4)).map(|_| (0..src.range(2, 5)).map(|_| plain[src.below(k)]).collect()).collect();
    let nrec = src.range(1024, 2500);
    let titles: Vec<String> = (0..nrec).map(|_| format!("{} {}", src.pick(&vocab), src.pick(&vocab))).collect();
    let size = *src.pick(&[1usize, 10, 52, 60, 120, 300]);
    let w: Vec<char> = src.pick(&vocab).chars().collect();
    let q1: String = w[..1 + src.below(w.len())].iter().collect();
    let q2 = src.pick(&vocab).clone();
    let early = vec![(src.range(1, 1000), q1.clone())];
    Box::new(C18Case { lang, titles, size, queries: vec![q1, q2], early, session: 0 })
}

pub fn decode(src: &mut Source) -> Box<dyn Case> {
    if src.chance(1, 400) {
        return decode_huge(src);
    }
    if src.chance(1, 60) {
        return decode_paragraph(src);
    }
    if src.chance(1, 60) {
        return decode_sparse(src);
    }
    let lang = gen_lang(src);
    let plain = plain_letters(lang);
    let nv = src.range(2, 6);
    let k = src.range(3, 8);
    let vocab: Vec<String> = (0..nv).map(|_| (0..src.range(1, 6)).map(|_| plain[src.below(k)]).collect()).collect();
    let size = *src.pick(&[1usize, 2, 3, 0, 10, 65]);
    // cross the 10*size cap in >= 30% of the cases by construction
    let want_cap = size > 0 && src.chance(2, 5);
    let nrec = if want_cap { 10 * size + 1 + src.below(6 * size + 10) } else { match src.weighted(&[1, 6, 3]) { 0 => 0, 1 => src.range(1, 12), _ => src.range(13, 60) } };
    let nrec = nrec.min(700);
    let general = gen_vocab(src, lang, Flavor::Clean, 1, 3);
    let titles: Vec<String> = (0..nrec)
        .map(|_| match src.weighted(&[if want_cap { 30 } else { 8 }, 1, 1, 1]) {
            0 => {
                let nw = src.range(1, 3);
                (0..nw).map(|_| src.pick(&vocab).clone()).collect::<Vec<_>>().join(" ")
            }
            1 => String::new(),
            2 => gen_title(src, lang, &general, Flavor::Clean),
            _ => src.pick(&vocab).clone(),
        })
        .collect();
    let nq = src.range(1, 3);
    let queries = (0..nq)
        .map(|_| {
            let w: Vec<char> = src.pick(&vocab).chars().collect();
            let mut q: String = if src.chance(1, 2) { w[..1 + src.below(w.len())].iter().collect() } else { w.iter().collect() };
            if src.chance(1, 3) {
                q.push(' ');
                q.push_str(src.pick(&vocab).as_str());
            }
            q
        })
        .collect();
    let mut early = Vec::new();
    if src.chance(1, 3) {
        for _ in 0..src.range(1, 3) {
            let at = src.below(titles.len() + 1).min(if src.chance(1, 2) { 0 } else { usize::MAX });
            let w: Vec<char> = src.pick(&vocab).chars().collect();
            early.push((at, w[..1 + src.below(w.len())].iter().collect()));
        }
    }
    let session = if src.chance(1, 80) { src.range(200, 530) } else { 0 };
    Box::new(C18Case { lang, titles, size, queries, early, session })
}

impl Case for C18Case {
    fn describe(&self) -> Value {
        json!({"lang": self.lang, "size": self.size, "n_records": self.titles.len(), "first_titles": self.titles.iter().take(12).map(|t| show(&t.chars().take(80).collect::<String>())).collect::<Vec<_>>(), "queries": self.queries.iter().map(|q| show(&q.chars().take(120).collect::<String>())).collect::<Vec<_>>()})
    }
    fn key(&self) -> u64 {
        hash64(self)
    }
    fn check(&self, ctx: &mut Ctx) -> Result<(), Violation> {
        let l = lang_of(self.lang);
        let recs: Vec<Rec> = self.titles.iter().enumerate().map(|(i, t)| (i + 1, t.clone(), 0)).collect();
        let mut store = Store::new();
        store.lang = lang_of(self.lang);
        store.limit = 10;
        for (i, (id, t, r)) in recs.iter().enumerate() {
            for (at, q) in &self.early {
                if *at == i {
                    let tq = tokenize_query(q, &l);
                    let _ = store.index.borrow_mut().prepare(&tq.to_ref(), self.size);
                }
            }
            store.add(Record::new(*id, t, *r, &store.lang));
        }
        let nrec = recs.len();
        if self.session > 0 {
            // a long session on one index: the same questions over and over must keep their answer
            let qs: Vec<TextOwn> = self.queries.iter().map(|q| tokenize_query(q, &l)).filter(|q| !q.words.is_empty()).collect();
            if !qs.is_empty() {
                let first: Vec<Vec<usize>> = qs.iter().map(|q| { let mut v = store.index.borrow_mut().prepare(&q.to_ref(), self.size); v.sort(); v }).collect();
                for k in 0..self.session {
                    let i = k % qs.len();
                    let mut v = store.index.borrow_mut().prepare(&qs[i].to_ref(), self.size);
                    v.sort();
                    let pos_total = v.len();
                    if v != first[i] && pos_total <= 10 * self.size && first[i].len() <= 10 * self.size {
                        return ctx.fail("session-changes-candidates", "", format!("lang={} query={:?} size={} call #{} on the same index returned {:?}, the first call returned {:?}", self.lang, self.queries[i], self.size, k + qs.len(), v, first[i]));
                    }
                }
                ctx.label("long-session");
            }
        }
        let gsets: Vec<_> = self.titles.iter().map(|t| gramset(&tokenize_record(t, &l))).collect();
        for qs in &self.queries {
            let q = tokenize_query(qs, &l);
            if q.words.is_empty() {
                continue;
            }
            let got = store.index.borrow_mut().prepare(&q.to_ref(), self.size);
            let qg = gramset(&q);
            let shared: Vec<usize> = gsets.iter().map(|g| g.intersection(&qg).count()).collect();
            let info = |x: String| format!("lang={} query={:?} size={} n={} candidates={:?} shared-gram counts={:?} {}", self.lang, qs, self.size, nrec, got, shared, x);
            let mut g2 = got.clone();
            g2.sort();
            g2.dedup();
            if g2.len() != got.len() {
                return ctx.fail("duplicate-candidate", "", info(String::new()));
            }
            if let Some(p) = got.iter().find(|&&p| p >= nrec) {
                return ctx.fail("invalid-position", "", info(format!("position {}", p)));
            }
            if let Some(p) = got.iter().find(|&&p| shared[p] == 0) {
                return ctx.fail("candidate-shares-no-gram", "", info(format!("position {}", p)));
            }
            let pos = shared.iter().filter(|&&c| c > 0).count();
            if pos <= 10 * self.size {
                if g2.len() != pos {
                    return ctx.fail("sharing-record-missing", "", info(format!("{} records share a gram", pos)));
                }
            } else {
                if got.len() != 10 * self.size {
                    return ctx.fail("cap-length", "", info(format!("{} records share a gram, expected exactly {} candidates", pos, 10 * self.size)));
                }
                if got.windows(2).any(|w| shared[w[0]] < shared[w[1]]) {
                    return ctx.fail("not-best-first", "", info(String::new()));
                }
                let minl = got.iter().map(|&p| shared[p]).min().unwrap_or(usize::MAX);
                if (0..nrec).any(|p| !got.contains(&p) && shared[p] > minl) {
                    return ctx.fail("omitted-shares-more", "", info(String::new()));
                }
                ctx.label("capped");
                ctx.nontrivial();
            }
            let mut cs: Vec<usize> = shared.iter().cloned().filter(|&c| c > 0).collect();
            cs.sort();
            cs.dedup();
            if cs.len() >= 2 {
                ctx.nontrivial();
                ctx.label("mixed-counts");
            }
            ctx.label_if(pos == 0, "no-candidate");
            ctx.label_if(shared.iter().any(|&c| c > 255), ">255-shared-grams");
            ctx.count("prepares", 1);
        }
        ctx.label_if(self.size == 0, "size-0");
        ctx.label_if(self.titles.len() >= 1024, "store>=1024");
        ctx.label_if(!self.early.is_empty(), "asked-while-building");
        ctx.label_if(self.titles.iter().any(|t| t.is_empty()), "empty-title");
        Ok(())
    }
}

pub fn def() -> PropDef {
    PropDef {
        id: "C18",
        title: "The trigram index returns exactly the records sharing a gram, best first",
        rule: "random stores built by 0-700 adds (titles of 1-3 words over a tiny vocabulary, duplicates, empty titles, one-letter words, some general titles), sizes {0,1,2,3,10,65}, 1-3 queries (vocabulary words, prefixes, two words); in 40% of the cases with size > 0 the store is built larger than 10*size so that the cap is crossed. Shared-gram counts are recomputed from the public tokeniser with an own gram function and BTreeSet intersection. Non-trivial = capped case, or records with different positive shared counts; distinct = distinct case",
        assumptions: &["gram = 1-letter word start, 2-letter word start, every 3-letter window of a normalised word"],
        spaces: vec![Space { name: "index", decode, plan: |t| Plan::Random(t.n(120_000, 2_000_000)) }],
        differential: false,
        floors: &[("prepares", 0.8)],
    }
}
