//! C19 - unchecked fast paths never touch memory outside their buffers.
//! Monitors only: the guarded hook assertions (row and column < dimension, index < len) and the
//! standard library's own get_unchecked precondition checks (live in the checked profile).

use crate::core::*;
use crate::gen::*;
use crate::source::Source;
use lucid_suggest_core::verif::{word_match, DamerauLevenshtein, Jaccard};
use lucid_suggest_core::*;
use serde_json::{json, Value};

#[derive(Clone, Debug, Hash)]
pub enum Call {
    Distance(String, String),
    Similarity(String, String),
    WordMatch { rword: String, qword: String, fin: bool },
    /// store of `titles`, then the queries in order (thread-local matcher instances grow)
    Search { lang: &'static str, titles: Vec<String>, limit: usize, queries: Vec<String>, clear_after: Option<usize> },
    /// through the registry: create, fill, search, destroy the (last) store, create again, search
    Registry { lang: &'static str, titles: Vec<String>, first: Vec<String>, second_titles: Vec<String>, second: Vec<String> },
}

#[derive(Clone, Debug, Hash)]
pub struct C19Case {
    pub calls: Vec<Call>,
}

fn gen_len19(src: &mut Source) -> usize {
    if src.chance(1, 150) {
        // the sizes where a capped or rounded buffer dimension would sit
        return *src.pick(&[255usize, 256, 257, 510, 511, 512, 513, 514]);
    }
    match src.weighted(&[6, 4, 3, 2, 1]) {
        0 => src.range(0, 8),
        1 => src.range(17, 24),
        2 => src.range(28, 40),
        3 => src.range(45, 60),
        _ => src.range(80, 130),
    }
}

fn gen_w(src: &mut Source, lang: &str) -> String {
    let plain = plain_letters(lang);
    let n = gen_len19(src);
    let k = src.range(2, 10);
    (0..n).map(|_| plain[src.below(k)]).collect()
}

fn near(src: &mut Source, lang: &str, w: &str) -> String {
    let mut v: Vec<char> = w.chars().collect();
    for _ in 0..src.range(0, 2) {
        gen_edit(src, lang, &mut v);
    }
    if src.chance(1, 3) && !v.is_empty() {
        let n = 1 + src.below(v.len());
        v.truncate(n);
    }
    v.into_iter().collect()
}

pub fn decode(src: &mut Source) -> Box<dyn Case> {
    let mut calls = Vec::new();
    while calls.len() < 8 && (calls.is_empty() || src.chance(4, 5)) {
        let lang = if src.chance(1, 4) { "ru" } else { "en" };
        match src.weighted(&[6, 4, 6, 4, 1]) {
            4 => {
                let lang = gen_lang(src);
                let mk = |src: &mut Source| -> Vec<String> { (0..src.range(1, 4)).map(|_| { let a = gen_w(src, lang); let b = gen_w(src, lang); format!("{} {}", a, b) }).collect() };
                let titles = mk(src);
                let second_titles = mk(src);
                let q = |src: &mut Source, ts: &Vec<String>| -> Vec<String> { (0..src.range(1, 3)).map(|_| { let t = src.pick(ts).clone(); let w = t.split(' ').next().unwrap_or("").to_string(); near(src, lang, &w) }).collect() };
                let first = q(src, &titles);
                let second = q(src, &second_titles);
                calls.push(Call::Registry { lang, titles, first, second_titles, second });
            }
            0 => {
                let a = gen_w(src, lang);
                let b = if src.chance(1, 2) { near(src, lang, &a) } else { gen_w(src, lang) };
                calls.push(Call::Distance(a, b));
            }
            1 => {
                let a = gen_w(src, lang);
                let b = if src.chance(1, 2) { near(src, lang, &a) } else { gen_w(src, lang) };
                calls.push(Call::Similarity(a, b));
            }
            2 => {
                let r = gen_w(src, lang);
                let q = near(src, lang, &r);
                calls.push(Call::WordMatch { rword: r, qword: q, fin: src.chance(1, 2) });
            }
            _ => {
                let lang = gen_lang(src);
                let nrec = match src.weighted(&[60, 20, 10, 1]) {
                    0 => src.range(1, 6),
                    1 => src.range(7, 40),
                    2 => src.range(100, 700),
                    // record counts around a block boundary of a thousand
                    _ => *src.pick(&[1023usize, 1024, 1025, 1026, 2048, 2049]),
                };
                let vocab: Vec<String> = (0..src.range(2, 6)).map(|_| gen_w(src, lang)).collect();
                let titles: Vec<String> = (0..nrec)
                    .map(|_| {
                        let nw = src.range(1, 3);
                        (0..nw).map(|_| src.pick(&vocab).clone()).collect::<Vec<_>>().join(*src.pick(&[" ", "-", " "]))
                    })
                    .collect();
                let limit = *src.pick(&[10usize, 1, 3, 65, 0]);
                let nq = src.range(1, 4);
                let last_word = titles.last().map(|t| t.split(|c: char| !c.is_alphanumeric()).next().unwrap_or("").to_string()).unwrap_or_default();
                let queries = (0..nq)
                    .map(|_| {
                        let w = src.pick(&vocab).clone();
                        let mut q = near(src, lang, &w);
                        if src.chance(1, 4) {
                            q.push(' ');
                            let w2 = src.pick(&vocab).clone();
                            q.push_str(&near(src, lang, &w2));
                        }
                        if src.chance(1, 6) {
                            // run two vocabulary words together / split one
                            q = format!("{}{}", w, src.pick(&vocab));
                        }
                        if src.chance(1, 5) && !last_word.is_empty() {
                            // aimed at the record added last
                            q = last_word.clone();
                        }
                        q
                    })
                    .collect();
                let clear_after = if src.chance(1, 4) { Some(src.below(nq + 1)) } else { None };
                calls.push(Call::Search { lang, titles, limit, queries, clear_after });
            }
        }
    }
    Box::new(C19Case { calls })
}

fn is_memory_monitor(msg: &str) -> bool {
    msg.starts_with("verif:") || msg.contains("unsafe precondition") || msg.contains("get_unchecked") || msg.contains("out of range for slice") || msg.contains("index out of bounds")
}

impl Case for C19Case {
    fn describe(&self) -> Value {
        json!({"calls": self.calls.iter().map(|c| match c {
            Call::Distance(a, b) => json!({"distance": [a, b], "lens": [a.chars().count(), b.chars().count()]}),
            Call::Similarity(a, b) => json!({"similarity": [a, b], "lens": [a.chars().count(), b.chars().count()]}),
            Call::WordMatch { rword, qword, fin } => json!({"word_match": {"record": rword, "query": qword, "query_finished": fin}}),
            Call::Registry { lang, titles, first, second_titles, second } => json!({"registry": {"lang": lang, "create+add": titles, "run_search": first, "destroy_then_create+add": second_titles, "run_search_again": second}}),
            Call::Search { lang, titles, limit, queries, clear_after } => json!({"search": {"lang": lang, "clear_store_after_query": clear_after, "records": titles.len(), "first_titles": titles.iter().take(4).collect::<Vec<_>>(), "limit": limit, "queries": queries}}),
        }).collect::<Vec<_>>()})
    }
    fn key(&self) -> u64 {
        hash64(self)
    }
    fn check(&self, ctx: &mut Ctx) -> Result<(), Violation> {
        let damlev = DamerauLevenshtein::new();
        let jac: Jaccard<char> = Jaccard::new();
        let en = lang_english();
        let mut max_seen = 0usize;
        for (k, call) in self.calls.iter().enumerate() {
            let len_of = |s: &str| s.chars().count();
            let this_len = match call {
                Call::Distance(a, b) | Call::Similarity(a, b) => len_of(a).max(len_of(b)),
                Call::WordMatch { rword, qword, .. } => len_of(rword).max(len_of(qword)),
                Call::Registry { titles, first, second_titles, second, .. } => titles.iter().chain(first.iter()).chain(second_titles.iter()).chain(second.iter()).flat_map(|t| t.split(|c: char| !c.is_alphanumeric())).map(len_of).max().unwrap_or(0),
                Call::Search { titles, queries, .. } => titles.iter().chain(queries.iter()).flat_map(|t| t.split(|c: char| !c.is_alphanumeric())).map(len_of).max().unwrap_or(0),
            };
            clear_panic();
            let r = std::panic::catch_unwind(std::panic::AssertUnwindSafe(|| match call {
                Call::Distance(a, b) => {
                    let ta = Text::from_str(a).set_char_classes(&en);
                    let tb = Text::from_str(b).set_char_classes(&en);
                    damlev.distance(&ta.view(0), &tb.view(0));
                    damlev.distance(&tb.view(0), &ta.view(0));
                }
                Call::Similarity(a, b) => {
                    let ca: Vec<char> = a.chars().collect();
                    let cb: Vec<char> = b.chars().collect();
                    jac.similarity(&ca, &cb);
                    jac.similarity(&cb, &ca);
                }
                Call::WordMatch { rword, qword, fin } => {
                    let tr = Text::from_str(rword).set_char_classes(&en);
                    let tq = Text::from_str(qword).set_char_classes(&en).fin(*fin);
                    word_match(&tr.view(0), &tq.view(0));
                }
                Call::Registry { lang, titles, first, second_titles, second } => {
                    // this case runs in its own thread: store 1 is the only store of the registry
                    lucid_suggest_core::create_store(1, lang_of(lang));
                    for (i, t) in titles.iter().enumerate() {
                        lucid_suggest_core::add_record(1, i + 1, t, i);
                    }
                    for q in first {
                        lucid_suggest_core::run_search(1, q);
                    }
                    lucid_suggest_core::destroy_store(1);
                    lucid_suggest_core::create_store(1, lang_of(lang));
                    for (i, t) in second_titles.iter().enumerate() {
                        lucid_suggest_core::add_record(1, i + 1, t, i);
                    }
                    for q in second {
                        lucid_suggest_core::run_search(1, q);
                    }
                    lucid_suggest_core::destroy_store(1);
                }
                Call::Search { lang, titles, limit, queries, clear_after } => {
                    let recs: Vec<Rec> = titles.iter().enumerate().map(|(i, t)| (i + 1, t.clone(), i % 7)).collect();
                    let mut store = build_store(lang, &recs, *limit);
                    for (qi, q) in queries.iter().enumerate() {
                        if *clear_after == Some(qi) {
                            // clear, ask, refill half, ask again: counters and postings must agree at every point
                            store.clear();
                            search(&store, q);
                            for (id, t, r) in recs.iter().take(recs.len() / 2 + 1) {
                                store.add(Record::new(*id, t, *r, &store.lang));
                            }
                        }
                        search(&store, q);
                    }
                }
            }));
            if r.is_err() {
                let (msg, loc) = take_panic().unwrap_or(("panic".into(), "?".into()));
                if is_memory_monitor(&msg) {
                    return ctx.fail("out-of-range-access", "", format!("call #{}: {} @ {}", k, msg, loc));
                }
                // any other panic is not this property's business (C01 decides those)
                ctx.label("foreign-panic-ignored");
                return Ok(());
            }
            ctx.label_if(this_len > 20, "beyond-initial-capacity");
            ctx.label_if(this_len > max_seen && this_len > 20, "grew-buffer");
            ctx.label_if(this_len < max_seen && max_seen > 20, "short-after-long");
            ctx.label_if(matches!(call, Call::Search { titles, .. } if titles.len() >= 100), "store>=100");
            if (this_len > max_seen && this_len > 20) || (this_len < max_seen && max_seen > 20) {
                ctx.nontrivial();
            }
            max_seen = max_seen.max(this_len);
        }
        ctx.count("calls", self.calls.len() as u64);
        Ok(())
    }
}

pub fn def() -> PropDef {
    PropDef {
        id: "C19",
        title: "Unchecked fast paths never touch memory outside their buffers",
        rule: "random sequences of 1-8 calls (DamerauLevenshtein::distance, Jaccard::similarity, word_match on long-lived instances; Store::search on stores of 1-700 records, which exercises the thread-local production instances) with word lengths 0-8, 17-24, 28-40, 45-60, 80-130 in random order. Oracle = monitors: guarded assertions row < size && col < size in every matrix access, index < len before every other unchecked access, std's get_unchecked precondition checks. Non-trivial = a call that grew a buffer (longer than anything before and > 20) or a shorter input after a longer one; distinct = distinct call sequence",
        assumptions: &["monitors observe executed accesses only", "panics that are not memory monitors are ignored here (C01 decides them)"],
        spaces: vec![Space { name: "calls", decode, plan: |t| Plan::Random(t.n(80_000, 2_000_000)) }],
        differential: false,
        floors: &[("calls", 1.5)],
    }
}
