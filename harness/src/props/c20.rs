//! C20 - stores in the top-level registry are isolated and keep their own last result.

use crate::core::*;
use crate::gen::*;
use crate::source::Source;
use lucid_suggest_core as lsc;
use serde_json::{json, Value};

#[derive(Clone, Debug, Hash)]
pub enum Op {
    Create(usize, &'static str),
    Destroy(usize),
    Add(usize, usize, String, usize),
    Limit(usize, usize),
    Markers(usize, String, String),
    Search(usize, String),
}

#[derive(Clone, Debug, Hash)]
pub struct C20Case {
    pub ops: Vec<Op>,
}

/// 17-24 stores alive on one thread, each searched once or twice, in a shuffled order
fn decode_many(src: &mut Source) -> Box<dyn Case> {
    let n = src.range(17, 24);
    let mut ops = Vec::new();
    let plain = plain_letters("en");
    let words: Vec<String> = (0..4).map(|_| (0..src.range(2, 5)).map(|_| plain[src.below(6)]).collect()).collect();
    for s in 0..n {
        ops.push(Op::Create(s + 1, gen_lang(src)));
        for r in 0..src.range(1, 3) {
            ops.push(Op::Add(s + 1, s * 10 + r + 1, format!("{} {}", src.pick(&words), src.pick(&words)), src.below(4)));
        }
    }
    let mut order: Vec<usize> = (0..n).collect();
    shuffle(src, &mut order);
    for round in 0..2 {
        for &s in &order {
            if round == 0 || src.chance(1, 3) {
                let w: Vec<char> = src.pick(&words).chars().collect();
                ops.push(Op::Search(s + 1, w[..1 + src.below(w.len())].iter().collect()));
            }
        }
    }
    Box::new(C20Case { ops })
}

/// one store with thousands of records and a limit in the thousands ("show all")
fn decode_show_all(src: &mut Source) -> Box<dyn Case> {
    let n = src.range(4100, 5200);
    let plain = plain_letters("en");
    let words: Vec<String> = (0..3).map(|_| (0..src.range(2, 4)).map(|_| plain[src.below(4)]).collect()).collect();
    let mut ops = vec![Op::Create(1, gen_lang(src)), Op::Limit(1, src.range(4097, 6000))];
    for r in 0..n {
        ops.push(Op::Add(1, r + 1, format!("{} {}", words[0], src.pick(&words)), src.below(4)));
    }
    let w: Vec<char> = words[0].chars().collect();
    ops.push(Op::Search(1, w[..1].iter().collect()));
    ops.push(Op::Search(1, String::new()));
    Box::new(C20Case { ops })
}

pub fn decode(src: &mut Source) -> Box<dyn Case> {
    if src.chance(1, 60) {
        return decode_many(src);
    }
    if src.chance(1, 3000) {
        return decode_show_all(src);
    }
    const IDS: [usize; 3] = [0, 7, 1_000_003];
    let mut live: Vec<Option<&'static str>> = vec![None; 3];
    let mut titles: Vec<Vec<String>> = vec![Vec::new(); 3];
    let shared_vocab: Vec<String> = {
        // a vocabulary shared by all stores: cross-talk would produce plausible-looking hits
        let n = src.range(2, 5);
        (0..n).map(|_| {
            // words whose tokenisation depends on the store's language (accents of several
            // inventories, inflectional endings, function words): a store must be searched with
            // ITS language's tokens
            let l = *src.pick(&["none", "de", "fr", "es", "ru", "en"]);
            let mut w = String::new();
            match src.below(5) {
                4 if src.chance(1, 3) => {
                    // a long compound (the thread-local matcher scratch grows)
                    let plain = plain_letters(if l == "ru" { "ru" } else { "en" });
                    for _ in 0..src.range(21, 40) {
                        w.push(plain[src.below(6)]);
                    }
                }
                0 => {
                    for _ in 0..src.range(2, 6) {
                        gen_letter(src, l, &mut w, false);
                    }
                    w.push_str(*src.pick(suffixes(l)));
                }
                1 => {
                    let f = crate::tables::func_words(l);
                    if f.is_empty() { w.push_str("the") } else { w.push_str(*src.pick(f)) }
                }
                _ => {
                    for _ in 0..src.range(1, 6) {
                        gen_letter(src, l, &mut w, false);
                    }
                }
            }
            w
        }).collect()
    };
    let mut ops = Vec::new();
    let mut next_rec = 1usize;
    let mut last_q: Vec<Option<String>> = vec![None; 3];
    while ops.len() < 30 && (ops.len() < 3 || src.chance(9, 10)) {
        let s = src.below(3);
        match live[s] {
            None => {
                let lang = gen_lang(src);
                live[s] = Some(lang);
                titles[s].clear();
                ops.push(Op::Create(IDS[s], lang));
            }
            Some(lang) => match src.weighted(&[8, 8, 2, 2, 1]) {
                0 => {
                    let nw = src.range(1, 3);
                    let prev_add: Option<String> = ops.iter().rev().find_map(|o| if let Op::Add(_, _, t, _) = o { Some(t.clone()) } else { None });
                    let t = if prev_add.is_some() && src.chance(1, 5) {
                        // the very same title that was just added (often to another store)
                        prev_add.unwrap()
                    } else if src.chance(5, 6) { (0..nw).map(|_| src.pick(&shared_vocab).clone()).collect::<Vec<_>>().join(" ") } else { gen_title(src, lang, &shared_vocab, Flavor::Adversarial) };
                    titles[s].push(t.clone());
                    ops.push(Op::Add(IDS[s], next_rec, t, src.below(4)));
                    next_rec += 1;
                }
                1 => {
                    let q = match src.weighted(&[2, 5, 2, if last_q[s].is_some() { 3 } else { 0 }]) {
                        3 => last_q[s].clone().unwrap(),
                        0 => String::new(),
                        1 => {
                            let w: Vec<char> = src.pick(&shared_vocab).chars().collect();
                            w[..1 + src.below(w.len())].iter().collect()
                        }
                        _ => gen_query(src, lang, &titles[s], &shared_vocab, Flavor::Clean),
                    };
                    last_q[s] = Some(q.clone());
                    ops.push(Op::Search(IDS[s], q));
                }
                2 => {
                    let l = if src.chance(1, 10) { 65536 } else { src.below(13) };
                    ops.push(Op::Limit(IDS[s], l));
                }
                3 => ops.push(Op::Markers(IDS[s], src.pick(&["", "<", "[[", "*", "<em>", "«", "【", "é", "«\u{a0}", ">> ", "\u{1b}[1m", "\t"]).to_string(), src.pick(&["", ">", "]]", "*", "</em>", "»", "】", "é", "\u{a0}»", " <<", "\u{1b}[0m", "\t"]).to_string())),
                _ => {
                    live[s] = None;
                    ops.push(Op::Destroy(IDS[s]));
                    // half of the time: re-create at once under another language, load the same
                    // titles and ask the same question again, with nothing in between
                    if src.chance(1, 2) && ops.len() < 26 {
                        let lang2 = gen_lang(src);
                        live[s] = Some(lang2);
                        ops.push(Op::Create(IDS[s], lang2));
                        let old = std::mem::take(&mut titles[s]);
                        for t in old.iter().take(3) {
                            ops.push(Op::Add(IDS[s], next_rec, t.clone(), src.below(4)));
                            next_rec += 1;
                            titles[s].push(t.clone());
                        }
                        if let Some(q) = last_q[s].clone() {
                            ops.push(Op::Search(IDS[s], q));
                        }
                    } else {
                        last_q[s] = None;
                    }
                }
            },
        }
    }
    Box::new(C20Case { ops })
}

struct Model {
    lang: &'static str,
    recs: Vec<Rec>,
    limit: usize,
    marks: (String, String),
    last: Vec<(usize, String)>,
}

impl Case for C20Case {
    fn describe(&self) -> Value {
        let shown: Vec<&Op> = if self.ops.len() > 200 { self.ops.iter().take(20).chain(self.ops.iter().rev().take(5).collect::<Vec<_>>().into_iter().rev()).collect() } else { self.ops.iter().collect() };
        json!({"n_ops": self.ops.len(), "ops": shown.into_iter().map(|o| match o {
            Op::Create(s, l) => json!({"create_store": s, "lang": l}),
            Op::Destroy(s) => json!({"destroy_store": s}),
            Op::Add(s, id, t, r) => json!({"add_record": s, "id": id, "title": show(t), "rating": r}),
            Op::Limit(s, l) => json!({"set_limit": s, "limit": l}),
            Op::Markers(s, a, b) => json!({"highlight_with": s, "markers": [a, b]}),
            Op::Search(s, q) => json!({"run_search": s, "query": show(q)}),
        }).collect::<Vec<_>>()})
    }
    fn key(&self) -> u64 {
        hash64(self)
    }
    fn check(&self, ctx: &mut Ctx) -> Result<(), Violation> {
        // this case runs in its own thread: the thread-local registry starts empty
        let mut models: std::collections::BTreeMap<usize, Model> = std::collections::BTreeMap::new();
        let mut searched: std::collections::BTreeSet<usize> = std::collections::BTreeSet::new();
        let mut recreated = false;
        let mut destroyed: std::collections::BTreeSet<usize> = std::collections::BTreeSet::new();
        let mut interleaved = false;
        let mut last_search_store: Option<usize> = None;
        for (k, op) in self.ops.iter().enumerate() {
            match op {
                Op::Create(s, lang) => {
                    lsc::create_store(*s, lang_of(lang));
                    if destroyed.contains(s) {
                        recreated = true;
                    }
                    models.insert(*s, Model { lang, recs: Vec::new(), limit: lsc::DEFAULT_LIMIT, marks: ("[".into(), "]".into()), last: Vec::new() });
                }
                Op::Destroy(s) => {
                    lsc::destroy_store(*s);
                    models.remove(s);
                    destroyed.insert(*s);
                }
                Op::Add(s, id, t, r) => {
                    lsc::add_record(*s, *id, t, *r);
                    models.get_mut(s).unwrap().recs.push((*id, t.clone(), *r));
                }
                Op::Limit(s, l) => {
                    lsc::set_limit(*s, *l);
                    models.get_mut(s).unwrap().limit = *l;
                }
                Op::Markers(s, a, b) => {
                    lsc::highlight_with(*s, (a, b));
                    models.get_mut(s).unwrap().marks = (a.clone(), b.clone());
                }
                Op::Search(s, q) => {
                    lsc::run_search(*s, q);
                    let m = models.get_mut(s).unwrap();
                    let (lang, recs, limit, marks, q2) = (m.lang, m.recs.clone(), m.limit, m.marks.clone(), q.clone());
                    let exp = isolated(move || {
                        let mut st = build_store(lang, &recs, limit);
                        st.highlight_with((&marks.0, &marks.1));
                        search(&st, &q2)
                    });
                    m.last = match exp {
                        Ok(e) => e,
                        Err(e) => return ctx.fail("stand-alone-store-panicked", "", format!("step {}: {}", k, e)),
                    };
                    searched.insert(*s);
                    if let Some(prev) = last_search_store {
                        if prev != *s && models.contains_key(&prev) {
                            interleaved = true;
                        }
                    }
                    last_search_store = Some(*s);
                    ctx.count("searches", 1);
                }
            }
            // after EVERY operation every live id must still hold its own last result
            for (s, m) in models.iter() {
                let got: Vec<(usize, String)> = lsc::using_results(*s, |res| res.iter().map(|r| (r.id, r.title.clone())).collect());
                if got != m.last {
                    let clause = if matches!(op, Op::Search(x, _) if x == s) { "result-differs-from-stand-alone-store" } else { "result-buffer-disturbed" };
                    return ctx.fail(clause, "", format!("after step {} ({:?}) store {} holds {:?} but its last search should have left {:?} (lang={} limit={} markers={:?} records={:?})", k, op, s, got, m.last, m.lang, m.limit, m.marks, m.recs));
                }
                ctx.count("buffer_checks", 1);
            }
        }
        // leave the registry clean (the thread dies anyway)
        let live: Vec<usize> = models.keys().cloned().collect();
        for s in live {
            lsc::destroy_store(s);
        }
        ctx.label_if(interleaved, "interleaved-searches");
        ctx.label_if(recreated, "destroy-recreate");
        ctx.label_if(searched.len() >= 2, ">=2-stores-searched");
        ctx.label_if(searched.len() > 16, ">16-stores-searched");
        if interleaved || recreated {
            ctx.nontrivial();
        }
        Ok(())
    }
}

pub fn def() -> PropDef {
    PropDef {
        id: "C20",
        title: "Stores in the top-level registry are isolated and keep their own last result",
        rule: "random valid call sequences (3-30 calls) over three store ids {0, 7, 1000003} through create_store / destroy_store / add_record / set_limit (0-12, sometimes 65536) / highlight_with / run_search / using_results; validity by construction (the decoder tracks which ids exist); all stores draw titles from one shared vocabulary so that cross-talk would look plausible. Model per id = (language, records, limit, markers, last result); the last result is computed by a stand-alone Store in a fresh thread at run_search time; after EVERY call every live id's buffer is compared with its model. Non-trivial = searches interleaved between >= 2 live ids, or a destroy followed by re-create; distinct = distinct sequence",
        assumptions: &["each case runs in its own thread, so the thread-local registry starts empty"],
        spaces: vec![Space { name: "calls", decode, plan: |t| Plan::Random(t.n(100_000, 2_000_000)) }],
        differential: false,
        floors: &[("searches", 1.0), ("buffer_checks", 8.0)],
    }
}
