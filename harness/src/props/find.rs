//! C03, C04, C13, C14 - "the record is found" properties on stores with |store| <= limit.

use crate::core::*;
use crate::gen::*;
use crate::model::*;
use crate::source::Source;
use crate::world::*;
use lucid_suggest_core::tokenization::tokenize_record;
use lucid_suggest_core::*;
use serde_json::{json, Value};

#[derive(Clone, Copy, Debug, Hash, PartialEq)]
pub enum Which {
    C03,
    C04,
    C13,
    C14,
}

#[derive(Clone, Debug, Hash)]
pub struct FindCase {
    pub which: Which,
    pub w: World,
    /// pre-drawn choices used by the check for sampled letters / pairs (all randomness is decoded)
    pub picks: Vec<u16>,
    /// huge stores: only six records (chosen by `picks`) are probed
    pub sample_only: bool,
    /// pre-history of every probe: the same query is first run with this smaller limit, the
    /// limit is then raised back to the world's (>= |store|) and the query repeated
    pub narrow: Option<usize>,
}

/// The store under test; with `narrow` every probe is preceded by the same query at a smaller limit.
pub struct Probe {
    s: std::cell::RefCell<lucid_suggest_core::Store>,
    full: usize,
    narrow: Option<usize>,
}

fn search(p: &Probe, q: &str) -> Vec<(usize, String)> {
    let mut s = p.s.borrow_mut();
    if let Some(n) = p.narrow {
        s.limit = n;
        let _ = crate::gen::search(&s, q);
        s.limit = p.full;
    }
    crate::gen::search(&s, q)
}

fn decode_find(src: &mut Source, which: Which) -> Box<dyn Case> {
    let mut o = WorldOpts::find();
    if which == Which::C14 {
        o.joined_shapes = true;
    }
    if which == Which::C03 {
        // languages assembled through the public Lang API count as languages too
        o.ext_langs = true;
    }
    if which == Which::C04 {
        o.max_recs = 6;
    }
    let mut w = gen_world(src, o);
    let mut sample_only = false;
    if (which == Which::C03 || which == Which::C13) && src.chance(1, 400) {
        // a catalogue of 1030-1300 (rarely 4200-5000) records in which one word opens most titles;
        // only a handful of records are probed (see `sample`)
        let plain = plain_letters(w.lang);
        let k = src.range(3, 6);
        let vocab: Vec<String> = (0..src.range(3, 6)).map(|_| (0..src.range(2, 6)).map(|_| plain[src.below(k)]).collect()).collect();
        let brand = src.pick(&vocab).clone();
        let n = if src.chance(1, 8) { src.range(4200, 5000) } else { src.range(1030, 1300) };
        w.recs = (0..n)
            .map(|i| {
                let t = format!("{} {} {}", if src.chance(9, 10) { brand.clone() } else { src.pick(&vocab).clone() }, src.pick(&vocab), src.pick(&vocab));
                (i + 1, t, src.below(1000))
            })
            .collect();
        w.limit = n + src.below(3);
        sample_only = true;
    }
    if which == Which::C03 && !sample_only && src.chance(1, 40) {
        // a large one-brand catalogue: 65-140 records over a tiny vocabulary, limit >= |store|
        let plain = plain_letters(w.lang);
        let k = src.range(3, 6);
        let nv = src.range(2, 5);
        let vocab: Vec<String> = (0..nv).map(|_| (0..src.range(2, 6)).map(|_| plain[src.below(k)]).collect()).collect();
        let brand = src.pick(&vocab).clone();
        let n = src.range(65, 140);
        w.recs = (0..n)
            .map(|i| {
                let t = format!("{} {}", if src.chance(4, 5) { brand.clone() } else { src.pick(&vocab).clone() }, src.pick(&vocab));
                (i + 1, t, src.below(100))
            })
            .collect();
        w.limit = n + src.below(3);
    }
    if (which == Which::C03 || which == Which::C13) && src.chance(1, 30) {
        // a keyword-stuffed title of 33-60 words; its late words must be as findable as its early ones
        let vocab = gen_vocab(src, w.lang, Flavor::Clean, 4, 8);
        let n = src.range(33, 60);
        let words: Vec<String> = (0..n).map(|_| if src.chance(1, 2) { src.pick(&vocab).clone() } else { gen_random_word(src, w.lang, true) }).collect();
        let id = w.recs.len() + 1;
        w.recs.push((id, words.join(" "), gen_rating(src)));
        w.limit = w.limit.max(w.recs.len());
    }
    if which == Which::C04 {
        // lengths 5-7 sit closest to the 0.21 threshold: add words of exactly those lengths
        let extra = src.range(1, 3);
        for _ in 0..extra {
            let n = src.weighted(&[0, 0, 0, 0, 0, 4, 4, 3, 1, 1, 1, 1, 1, 1, 1, 1]);
            let mut s = String::new();
            for _ in 0..n {
                gen_letter(src, w.lang, &mut s, false);
            }
            let id = w.recs.len() + 1;
            let t = if src.chance(1, 2) { s } else { format!("{} {}", gen_random_word(src, w.lang, false), s) };
            w.recs.push((id, t, gen_rating(src)));
        }
        // title words one edit away from a function word of the language: the typo then SPELLS a
        // function word (white -> while); deletions and transpositions are enumerated exhaustively,
        // so a word made by inserting a letter into f, or by swapping two letters of f, reaches f
        let fs: Vec<&&str> = crate::tables::func_words(w.lang).iter().filter(|f| f.chars().count() >= 4).collect();
        if !fs.is_empty() && src.chance(1, 2) {
            let f: Vec<char> = src.pick(&fs).chars().collect();
            let mut v = f.clone();
            if src.chance(1, 2) {
                let i = src.below(v.len() + 1);
                let plain = plain_letters(w.lang);
                v.insert(i, *src.pick(&plain));
            } else {
                let i = src.below(v.len() - 1);
                v.swap(i, i + 1);
            }
            let id = w.recs.len() + 1;
            w.recs.push((id, v.into_iter().collect(), gen_rating(src)));
        }
        w.limit = w.limit.max(w.recs.len());
    }
    let picks = (0..48).map(|_| src.below(1 << 16) as u16).collect();
    let narrow = if src.chance(1, 5) { Some(src.below(3).min(w.limit)) } else { None };
    Box::new(FindCase { which, w, picks, sample_only, narrow })
}

pub fn decode_c03(src: &mut Source) -> Box<dyn Case> {
    decode_find(src, Which::C03)
}
pub fn decode_c04(src: &mut Source) -> Box<dyn Case> {
    decode_find(src, Which::C04)
}
pub fn decode_c13(src: &mut Source) -> Box<dyn Case> {
    decode_find(src, Which::C13)
}
pub fn decode_c14(src: &mut Source) -> Box<dyn Case> {
    decode_find(src, Which::C14)
}

/// does the typed text tokenise (as a query) into exactly these words?
fn types_as(q: &str, l: &Lang, words: &[&[char]]) -> bool {
    let tq = tokenize_query(q, l);
    tq.words.len() == words.len() && tq.words.iter().zip(words.iter()).all(|(w, e)| &tq.chars[w.slice.0..w.slice.1] == *e)
}

fn found(store: &Probe, q: &str, id: usize) -> bool {
    search(store, q).iter().any(|h| h.0 == id)
}

impl FindCase {
    fn sampled(&self, ri: usize, n: usize) -> bool {
        if !self.sample_only {
            return true;
        }
        // the last record, the first, and four chosen by the pre-drawn picks
        ri + 1 == n || ri == 0 || (0..4).any(|k| self.picks[10 + k] as usize % n == ri)
    }
    fn pick(&self, a: usize, b: usize, c: usize, n: usize) -> usize {
        self.picks[(a * 31 + b * 7 + c * 3) % self.picks.len()] as usize % n.max(1)
    }

    fn check_c03(&self, ctx: &mut Ctx, store: &Probe, l: &Lang, toks: &[TextOwn]) -> Result<(), Violation> {
        let w = &self.w;
        let first_letters: Vec<char> = toks.iter().flat_map(|t| t.words.iter().map(move |wd| t.chars[wd.slice.0])).collect();
        for (ri, t) in toks.iter().enumerate() {
            if !self.sampled(ri, toks.len()) {
                continue;
            }
            let id = w.recs[ri].0;
            for (wi, wd) in t.words.iter().enumerate() {
                let wchars = &t.chars[wd.slice.0..wd.slice.1];
                for p in 1..=wchars.len() {
                    if !wchars[p - 1].is_alphanumeric() {
                        continue;
                    }
                    let spellings = [wchars[..p].iter().collect::<String>(), nz(&t.source[wd.slice.0..wd.slice.0 + p])];
                    for (vi, q) in spellings.iter().enumerate() {
                        if vi == 1 && *q == spellings[0] {
                            continue;
                        }
                        // precondition: what is typed normalises to a prefix of the word
                        let tq = tokenize_query(q, l);
                        let typed: &[char] = if tq.words.len() == 1 { &tq.chars[tq.words[0].slice.0..tq.words[0].slice.1] } else { &[] };
                        if (typed.len() < p || typed.len() > p + 1 || !wchars.starts_with(typed)) && retyping_may_differ(&[&wchars[..p]], q) {
                            ctx.count("skipped_not_a_normalised_prefix", 1);
                            continue;
                        }
                        ctx.count("probes", 1);
                        if !found(store, q, id) {
                            return ctx.fail("prefix-not-found", "", format!("lang={} title={:?} word #{} {:?} prefix query {:?} ({} of {} chars): record {} not among hits {:?}", w.lang, w.recs[ri].1, wi, wchars.iter().collect::<String>(), q, p, wchars.len(), id, search(store, q)));
                        }
                        let shares_first = first_letters.iter().filter(|&&c| c == wchars[0]).count() > 1;
                        if p < wchars.len() && w.recs.len() >= 2 && shares_first {
                            ctx.nontrivial();
                        }
                        ctx.label_if(p == 1, "prefix-len-1");
                        ctx.label_if(p > wd.stem && p < wchars.len(), "prefix-beyond-stem");
                        ctx.label_if(wd.is_function(), "function-word");
                        ctx.label_if(vi == 1, "original-spelling");
                        ctx.label_if(w.recs.len() > 64, "store>64");
                        ctx.label_if(wi >= 32, "word-beyond-32nd");
                        ctx.label_if(w.recs.len() > 1000, "store>1000");
                    }
                }
            }
        }
        Ok(())
    }

    fn check_c04(&self, ctx: &mut Ctx, store: &Probe, l: &Lang, toks: &[TextOwn]) -> Result<(), Violation> {
        let w = &self.w;
        let letters: Vec<char> = plain_letters(w.lang).into_iter().filter(|&c| {
            let s = c.to_string();
            types_as(&s, l, &[&[c]])
        }).collect();
        let all_words: Vec<Vec<char>> = toks.iter().flat_map(|t| t.words.iter().map(move |wd| t.chars[wd.slice.0..wd.slice.1].to_vec())).collect();
        for (ri, t) in toks.iter().enumerate() {
            let id = w.recs[ri].0;
            for (wi, wd) in t.words.iter().enumerate() {
                let wc = &t.chars[wd.slice.0..wd.slice.1];
                if wc.len() < 5 || !wc.iter().all(|c| c.is_alphabetic()) {
                    continue;
                }
                let mut dset = wc.to_vec();
                dset.sort();
                dset.dedup();
                if dset.len() < 3 {
                    continue;
                }
                ctx.count("qualifying_words", 1);
                let mut edits: Vec<(&'static str, usize, Vec<char>)> = Vec::new();
                for i in 0..wc.len() {
                    let mut e = wc.to_vec();
                    e.remove(i);
                    edits.push(("deletion", i, e));
                    if i + 1 < wc.len() {
                        let mut e = wc.to_vec();
                        e.swap(i, i + 1);
                        edits.push(("transposition", i, e));
                    }
                    for j in 0..3 {
                        let mut c = letters[self.pick(ri * 5 + wi, i, j, letters.len())];
                        if c == wc[i] {
                            c = letters[(letters.iter().position(|&x| x == c).unwrap() + 1 + j) % letters.len()];
                        }
                        if c != wc[i] {
                            let mut e = wc.to_vec();
                            e[i] = c;
                            edits.push(("substitution", i, e));
                        }
                    }
                }
                for i in 0..=wc.len() {
                    for j in 0..2 {
                        let c = letters[self.pick(ri * 5 + wi + 17, i, j, letters.len())];
                        let mut e = wc.to_vec();
                        e.insert(i, c);
                        edits.push(("insertion", i, e));
                    }
                }
                for (pi, (kind, pos, e)) in edits.into_iter().enumerate() {
                    let q: String = e.iter().collect();
                    if !types_as(&q, l, &[&e[..]]) && retyping_may_differ(&[&e[..]], &q) {
                        ctx.count("skipped_not_stable", 1);
                        continue;
                    }
                    // the edited word "alone" is still typed letter by letter in a suggest box:
                    // for one probe in eight every proper prefix is searched first
                    if pi % 8 == (self.picks[1] as usize) % 8 {
                        for k in 1..e.len() {
                            let pq: String = e[..k].iter().collect();
                            let _ = search(store, &pq);
                        }
                        ctx.count("typed_letter_by_letter", 1);
                    }
                    ctx.count("probes", 1);
                    if !found(store, &q, id) {
                        return ctx.fail("typo-not-found", "", format!("lang={} title={:?} word {:?} {} at {} -> query {:?}: record {} not among hits {:?}", w.lang, w.recs[ri].1, wc.iter().collect::<String>(), kind, pos, q, id, search(store, &q)));
                    }
                    if e != wc && !all_words.iter().any(|x| *x == e) {
                        ctx.nontrivial();
                    }
                    ctx.label(kind);
                    ctx.label_if(pos == 0, "edit-at-first");
                    ctx.label_if(pos + 1 >= wc.len(), "edit-at-last");
                    ctx.label_if(wc.len() <= 7, "word-len-5-7");
                    if crate::tables::func_words(w.lang).iter().any(|f| f.chars().eq(e.iter().cloned())) {
                        ctx.label("typo-spells-function-word");
                    }
                }
            }
        }
        Ok(())
    }

    fn check_c13(&self, ctx: &mut Ctx, store: &Probe, l: &Lang, toks: &[TextOwn]) -> Result<(), Violation> {
        let w = &self.w;
        for (ri, t) in toks.iter().enumerate() {
            if !self.sampled(ri, toks.len()) {
                continue;
            }
            let id = w.recs[ri].0;
            let n = t.words.len();
            if n == 0 {
                continue;
            }
            ctx.count("probes", 1);
            if !found(store, &w.recs[ri].1, id) {
                return ctx.fail("whole-title-not-found", "", format!("lang={} title={:?}: record {} not among hits {:?}", w.lang, w.recs[ri].1, id, search(store, &w.recs[ri].1)));
            }
            let tf = format!("{} ", w.recs[ri].1);
            if !found(store, &tf, id) {
                return ctx.fail("whole-title-not-found", "finished", format!("lang={} title={:?} followed by a space: record {} not among hits {:?}", w.lang, w.recs[ri].1, id, search(store, &tf)));
            }
            let has_func = t.words.iter().any(|wd| wd.is_function());
            let repeated = (0..n).any(|i| (0..i).any(|j| word_chars(t, i) == word_chars(t, j)));
            if n >= 3 || has_func || repeated {
                ctx.nontrivial();
            }
            ctx.label_if(has_func, "function-word");
            ctx.label_if(repeated, "repeated-word");
            ctx.label_if(n >= 3, ">=3-words");
            if n < 2 {
                continue;
            }
            let mut pairs: Vec<(usize, usize)> = vec![(0, n - 1), (n - 1, 0)];
            for k in 0..3 {
                let a = self.pick(ri, k, 1, n);
                let b = self.pick(ri, k, 2, n);
                if a != b {
                    pairs.push((a, b));
                }
            }
            for (a, b) in pairs {
                let (wa, wb) = (word_chars(t, a), word_chars(t, b));
                let sa = nz(&t.source[t.words[a].slice.0..t.words[a].slice.1]);
                let sb = nz(&t.source[t.words[b].slice.0..t.words[b].slice.1]);
                let spellings = [format!("{} {}", wa.iter().collect::<String>(), wb.iter().collect::<String>()), format!("{} {}", sa, sb)];
                for (vi, q) in spellings.iter().enumerate() {
                    if vi == 1 && *q == spellings[0] {
                        continue;
                    }
                    if !types_as(q, l, &[wa, wb]) && retyping_may_differ(&[wa, wb], q) {
                        ctx.count("skipped_not_stable", 1);
                        continue;
                    }
                    ctx.count("probes", 1);
                    if !found(store, q, id) {
                        return ctx.fail("two-words-not-found", "", format!("lang={} title={:?} words #{} #{} query {:?}: record {} not among hits {:?}", w.lang, w.recs[ri].1, a, b, q, id, search(store, q)));
                    }
                    let qf = format!("{} ", q);
                    ctx.count("probes", 1);
                    if !found(store, &qf, id) {
                        return ctx.fail("two-words-not-found", "finished", format!("lang={} title={:?} words #{} #{} query {:?} (finished): record {} not among hits {:?}", w.lang, w.recs[ri].1, a, b, qf, id, search(store, &qf)));
                    }
                    ctx.label_if(a > b, "reversed-order");
                }
            }
        }
        Ok(())
    }

    fn check_c14(&self, ctx: &mut Ctx, store: &Probe, l: &Lang, toks: &[TextOwn]) -> Result<(), Violation> {
        let w = &self.w;
        for (ri, t) in toks.iter().enumerate() {
            let id = w.recs[ri].0;
            for wi in 0..t.words.len() {
                let wc = word_chars(t, wi);
                if wc.len() < 3 {
                    continue;
                }
                for k in 1..wc.len() {
                    let q = format!("{} {}", wc[..k].iter().collect::<String>(), wc[k..].iter().collect::<String>());
                    if !types_as(&q, l, &[&wc[..k], &wc[k..]]) && retyping_may_differ(&[&wc[..k], &wc[k..]], &q) {
                        ctx.count("skipped_not_stable", 1);
                        continue;
                    }
                    ctx.count("split_probes", 1);
                    if (k + wi) % 4 == 0 {
                        // something in front of the first typed word (spaces, a dash, a quote)
                        let lead = ["  ", "- ", "\"", "   ", " . "][(k + wi + ri) % 5];
                        let ql = format!("{}{}", lead, q);
                        if !found(store, &ql, id) {
                            return ctx.fail("split-spelling-not-found", "leading-separator", format!("lang={} title={:?} word {:?} split at {} -> query {:?}: record {} not among hits {:?}", w.lang, w.recs[ri].1, wc.iter().collect::<String>(), k, ql, id, search(store, &ql)));
                        }
                    }
                    if !found(store, &q, id) {
                        return ctx.fail("split-spelling-not-found", "", format!("lang={} title={:?} word {:?} split at {} -> query {:?}: record {} not among hits {:?}", w.lang, w.recs[ri].1, wc.iter().collect::<String>(), k, q, id, search(store, &q)));
                    }
                    // the same two words typed and finished (a separator follows the second one)
                    let qf = format!("{} ", q);
                    ctx.count("split_probes", 1);
                    if !found(store, &qf, id) {
                        return ctx.fail("split-spelling-not-found", "finished", format!("lang={} title={:?} word {:?} split at {} -> query {:?} (finished): record {} not among hits {:?}", w.lang, w.recs[ri].1, wc.iter().collect::<String>(), k, qf, id, search(store, &qf)));
                    }
                    if k == 1 || k + 1 == wc.len() {
                        ctx.nontrivial();
                        ctx.label("one-letter-half");
                    }
                }
            }
            for wi in 0..t.words.len().saturating_sub(1) {
                let (a, b) = (&t.words[wi], &t.words[wi + 1]);
                if b.slice.0 - a.slice.1 != 1 {
                    continue;
                }
                let mut j: Vec<char> = word_chars(t, wi).to_vec();
                j.extend(word_chars(t, wi + 1));
                if j.len() < 3 {
                    continue;
                }
                let q: String = j.iter().collect();
                let tq = tokenize_query(&q, l);
                if tq.words.len() != 1 || tq.words[0].stem != j.len() || &tq.chars[tq.words[0].slice.0..tq.words[0].slice.1] != &j[..] {
                    ctx.count("skipped_join_stemmed_or_unstable", 1);
                    continue;
                }
                ctx.count("join_probes", 1);
                if !found(store, &q, id) {
                    return ctx.fail("joined-spelling-not-found", "", format!("lang={} title={:?} adjacent words #{} #{} -> query {:?}: record {} not among hits {:?}", w.lang, w.recs[ri].1, wi, wi + 1, q, id, search(store, &q)));
                }
                let qf = format!("{} ", q);
                if !found(store, &qf, id) {
                    return ctx.fail("joined-spelling-not-found", "finished", format!("lang={} title={:?} adjacent words #{} #{} -> query {:?} (finished): record {} not among hits {:?}", w.lang, w.recs[ri].1, wi, wi + 1, qf, id, search(store, &qf)));
                }
                ctx.nontrivial();
                ctx.label("joined-pair");
            }
        }
        Ok(())
    }
}

impl Case for FindCase {
    fn describe(&self) -> Value {
        let mut d = self.w.describe();
        d.as_object_mut().unwrap().remove("queries");
        d["probes"] = json!(match self.which {
            Which::C03 => "every prefix (ending alphanumeric) of every word of every record, normalised and original spelling",
            Which::C04 => "every deletion and transposition, 3 substitutions per position, 2 insertions per gap, for every qualifying word",
            Which::C13 => "whole title; (first,last), (last,first) and up to 3 sampled ordered word pairs, both spellings",
            Which::C14 => "every split point of every word >= 3 chars; every adjacent pair with a 1-char gap run together",
        });
        d["each_probe_first_run_at_limit"] = json!(self.narrow);
        d
    }
    fn key(&self) -> u64 {
        hash64(&self.w)
    }
    fn check(&self, ctx: &mut Ctx) -> Result<(), Violation> {
        let w = &self.w;
        let store = Probe { s: std::cell::RefCell::new(w.store()), full: w.limit, narrow: self.narrow };
        ctx.label_if(self.narrow.is_some(), "probe-repeated-after-limit-raise");
        let l = lang_of(w.lang);
        let toks: Vec<TextOwn> = w.recs.iter().map(|r| tokenize_record(&r.1, &l)).collect();
        debug_assert!(w.recs.len() <= w.limit);
        match self.which {
            Which::C03 => self.check_c03(ctx, &store, &l, &toks),
            Which::C04 => self.check_c04(ctx, &store, &l, &toks),
            Which::C13 => self.check_c13(ctx, &store, &l, &toks),
            Which::C14 => self.check_c14(ctx, &store, &l, &toks),
        }
    }
}

const ASSUME: &[&str] = &[
    "|store| <= limit by construction (1-10 records, unique ids)",
    "a probe is made only when the typed text itself tokenises to the intended word(s): a cut between a base letter and its combining mark, or in the middle of an expanding letter, types something else and is skipped (counted)",
];

pub fn def_c03() -> PropDef {
    PropDef {
        id: "C03",
        title: "Search-as-you-type: any prefix of any title word finds the record",
        rule: "random worlds (1-10 records, limit >= |store|, titles from per-case vocabulary / real e-commerce titles / accented, stem-bearing, doubled-letter, function, one- and two-letter words, inner apostrophes and slashes, expanding letters); the check enumerates EVERY record x EVERY word x EVERY prefix ending in a letter or digit, typed in normalised and in original spelling. Non-trivial = a proper prefix probed in a store with >= 2 records where another word shares the first letter; distinct = distinct world",
        assumptions: ASSUME,
        spaces: vec![Space { name: "world", decode: decode_c03, plan: |t| Plan::Random(t.n(40_000, 800_000)) }],
        differential: false,
        floors: &[("probes", 30.0)],
    }
}

pub fn def_c04() -> PropDef {
    PropDef {
        id: "C04",
        title: "A single typo in a word of five or more letters still finds the record",
        rule: "random worlds as C03 plus 1-3 extra words of 5-7 letters (closest to the 0.21 threshold); for every qualifying word (normalised form all letters, >= 5 long, >= 3 distinct): every deletion, every adjacent transposition, 3 substitutions per position and 2 insertions per gap with lower-case letters of the language's script that normalisation leaves unchanged; the edited word is searched alone. Non-trivial = the edited word differs from the original and is not itself another title word; distinct = distinct world",
        assumptions: ASSUME,
        spaces: vec![Space { name: "world", decode: decode_c04, plan: |t| Plan::Random(t.n(20_000, 500_000)) }],
        differential: false,
        floors: &[("probes", 80.0), ("qualifying_words", 1.5)],
    }
}

pub fn def_c13() -> PropDef {
    PropDef {
        id: "C13",
        title: "Typing a whole title, or its words in another order, finds the record",
        rule: "random worlds as C03; for every record with >= 1 word the title itself is searched; for (first,last), (last,first) and up to 3 sampled ordered pairs of distinct word positions the two words are searched separated by a space, in normalised and original spelling. Non-trivial = title with >= 3 words, a function word or a repeated word; distinct = distinct world",
        assumptions: ASSUME,
        spaces: vec![Space { name: "world", decode: decode_c13, plan: |t| Plan::Random(t.n(80_000, 1_500_000)) }],
        differential: false,
        floors: &[("probes", 8.0)],
    }
}

pub fn def_c14() -> PropDef {
    PropDef {
        id: "C14",
        title: "Split and joined spellings find each other",
        rule: "random worlds as C03 with joined shapes over-represented (a word written as two words with 1-3 separator characters); every title word >= 3 chars x every split point is searched as two words; every adjacent pair with a gap of exactly one character whose concatenation has >= 3 chars and which the query tokeniser returns as one word with stem == length is searched run together. Non-trivial = a one-letter half, or a joined pair; distinct = distinct world",
        assumptions: ASSUME,
        spaces: vec![Space { name: "world", decode: decode_c14, plan: |t| Plan::Random(t.n(50_000, 1_000_000)) }],
        differential: false,
        floors: &[("split_probes", 12.0), ("join_probes", 0.8)],
    }
}
