use crate::engine::Registry;

pub mod c01;

pub fn registry() -> Registry {
    #[allow(unused_mut)]
    let mut props = vec![c01::def()];
    Registry { props }
}
