use crate::engine::Registry;

pub mod c01;
pub mod c02;
pub mod c05;
pub mod c08;
pub mod c09;
pub mod c10;
pub mod c11;
pub mod c15;
pub mod c20;
pub mod c18;
pub mod find;
pub mod rank;
pub mod selftest;
#[cfg(lucid_suggest_verif)]
pub mod c16;
#[cfg(lucid_suggest_verif)]
pub mod c17;
#[cfg(lucid_suggest_verif)]
pub mod c19;

pub fn registry() -> Registry {
    #[allow(unused_mut)]
    let mut props = vec![c01::def(), c02::def(), c05::def(), c09::def(), c15::def(), find::def_c03(), find::def_c04(), find::def_c13(), find::def_c14(), rank::def_c06(), rank::def_c07(), rank::def_c12(), c08::def(), c18::def(), c10::def(), c11::def(), c20::def()];
    #[cfg(lucid_suggest_verif)]
    {
        props.push(c16::def());
        props.push(c17::def());
        props.push(c19::def());
    }
    if std::env::var("LSVERIF_SELFTEST").is_ok() {
        props.extend(selftest::defs());
    }
    props.sort_by_key(|p| p.id);
    Registry { props }
}
