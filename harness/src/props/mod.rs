use crate::engine::Registry;

pub mod c01;
pub mod c15;
#[cfg(lucid_suggest_verif)]
pub mod c16;
#[cfg(lucid_suggest_verif)]
pub mod c17;
#[cfg(lucid_suggest_verif)]
pub mod c19;

pub fn registry() -> Registry {
    #[allow(unused_mut)]
    let mut props = vec![c01::def(), c15::def()];
    #[cfg(lucid_suggest_verif)]
    {
        props.push(c16::def());
        props.push(c17::def());
        props.push(c19::def());
    }
    props.sort_by_key(|p| p.id);
    Registry { props }
}
