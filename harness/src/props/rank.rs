//! C06 (own verdict, cut to the best `limit`), C07 (consistent order), C12 (empty query = top rated).

use crate::core::*;
use crate::gen::*;
use crate::model::*;
use crate::source::Source;
use lucid_suggest_core::tokenization::tokenize_record;
use serde_json::{json, Value};

#[derive(Clone, Debug, Hash)]
pub struct RankWorld {
    pub lang: &'static str,
    pub recs: Vec<Rec>,
    pub limit: usize,
    pub queries: Vec<String>,
    pub distinct: bool,
    pub perm: Vec<usize>,
    pub picks: Vec<u16>,
}

fn small_vocab_title(src: &mut Source, vocab: &[String]) -> String {
    let nw = src.range(1, 4);
    let mut s = String::new();
    for i in 0..nw {
        if i > 0 {
            s.push_str(*src.pick(&[" ", " ", " ", "-", ", "]));
        }
        s.push_str(src.pick(vocab).as_str());
    }
    s
}

/// |store| == 10 * limit exactly, every record sharing a gram with the query (the candidate cap
/// is met to the record)
fn gen_exact_cap_world(src: &mut Source) -> RankWorld {
    let lang = gen_lang(src);
    let plain = plain_letters(lang);
    let common: String = (0..src.range(2, 5)).map(|_| plain[src.below(6)]).collect();
    let others: Vec<String> = (0..src.range(2, 4)).map(|_| (0..src.range(1, 5)).map(|_| plain[6 + src.below(8)]).collect()).collect();
    let limit = src.range(1, 4);
    let nrec = 10 * limit;
    let ratings = gen_distinct_ratings(src, nrec);
    let recs: Vec<Rec> = (0..nrec)
        .map(|k| {
            let t = if src.chance(1, 2) { format!("{} {}", common, src.pick(&others)) } else { format!("{} {}", src.pick(&others), common) };
            (k + 1, t, ratings[k])
        })
        .collect();
    let cc: Vec<char> = common.chars().collect();
    let queries = vec![common.clone(), cc[..1 + src.below(cc.len())].iter().collect()];
    let mut perm: Vec<usize> = (0..nrec).collect();
    shuffle(src, &mut perm);
    let picks = (0..16).map(|_| src.below(1 << 16) as u16).collect();
    RankWorld { lang, recs, limit, queries, distinct: true, perm, picks }
}

fn gen_rank_world(src: &mut Source, force_distinct: bool, fit_cap: bool) -> RankWorld {
    if src.chance(1, 12) {
        return gen_exact_cap_world(src);
    }
    let lang = gen_lang(src);
    let vocab: Vec<String> = {
        let n = src.range(2, 7);
        (0..n).map(|_| {
            let mut w = String::new();
            for _ in 0..src.range(1, 8) {
                gen_letter(src, lang, &mut w, false);
            }
            w
        }).collect()
    };
    let huge = fit_cap && force_distinct && src.chance(1, 250);
    let nrec = if huge {
        // beyond a thousand hits, limits in the hundreds (C07 only: C06 searches every record alone)
        src.range(1100, 2600)
    } else {
        match src.weighted(&[10, 8, 4, 1]) {
            0 => src.range(1, 8),
            1 => src.range(9, 30),
            2 => src.range(31, 60),
            // now and then a store beyond 100 candidates (limits above the default then matter)
            _ => src.range(101, 260),
        }
    };
    let distinct = force_distinct || src.chance(1, 2);
    let ratings: Vec<usize> = if distinct { gen_distinct_ratings(src, nrec) } else { (0..nrec).map(|_| src.below(4)).collect() };
    let general_vocab = gen_vocab(src, lang, Flavor::Clean, 2, 4);
    let recs: Vec<Rec> = (0..nrec)
        .map(|k| {
            let t = if huge {
                // one word opens (almost) every title: well over a thousand records share its grams
                format!("{} {}", vocab[0], src.pick(&vocab))
            } else if src.chance(3, 4) {
                small_vocab_title(src, &vocab)
            } else {
                gen_title(src, lang, &general_vocab, Flavor::Clean)
            };
            (k + 1, t, ratings[k])
        })
        .collect();
    let mut limit = if nrec > 1000 { src.range(110, 700) } else if nrec > 100 { src.range(11, 40) } else { src.below(nrec + 3) };
    if fit_cap {
        // |store| <= 10 * limit
        limit = limit.max((nrec + 9) / 10).max(1);
    }
    let nq = src.range(1, 2);
    let titles: Vec<String> = recs.iter().map(|r| r.1.clone()).collect();
    if huge {
        let w: Vec<char> = vocab[0].chars().collect();
        let queries = vec![vocab[0].clone(), w[..1 + src.below(w.len())].iter().collect()];
        let mut perm: Vec<usize> = (0..nrec).collect();
        shuffle(src, &mut perm);
        let picks = (0..16).map(|_| src.below(1 << 16) as u16).collect();
        return RankWorld { lang, recs, limit, queries, distinct, perm, picks };
    }
    let queries = (0..nq)
        .map(|_| {
            if src.chance(3, 5) {
                let w: Vec<char> = src.pick(&vocab).chars().collect();
                let mut q: String = if src.chance(1, 2) { w[..1 + src.below(w.len())].iter().collect() } else { w.iter().collect() };
                if src.chance(1, 3) {
                    q.push(' ');
                    q.push_str(src.pick(&vocab).as_str());
                }
                q
            } else {
                gen_query(src, lang, &titles, &vocab, Flavor::Clean)
            }
        })
        .collect();
    let mut perm: Vec<usize> = (0..nrec).collect();
    shuffle(src, &mut perm);
    let picks = (0..16).map(|_| src.below(1 << 16) as u16).collect();
    RankWorld { lang, recs, limit, queries, distinct, perm, picks }
}

impl RankWorld {
    fn describe(&self) -> Value {
        json!({
            "lang": self.lang, "limit": self.limit, "n_records": self.recs.len(), "distinct_ratings": self.distinct,
            "records": self.recs.iter().map(|(id, t, r)| json!([id, show(t), r])).collect::<Vec<_>>(),
            "queries": self.queries.iter().map(|q| show(q)).collect::<Vec<_>>(),
        })
    }
}

fn solo(lang: &'static str, rec: Rec, q: String) -> Result<Vec<(usize, String)>, String> {
    isolated(move || {
        let s = build_store(lang, &[rec], 1);
        search(&s, &q)
    })
}

// ------------------------------------------------------------------------------------ C06

#[derive(Clone, Debug, Hash)]
pub struct C06Case(pub RankWorld);

pub fn decode_c06(src: &mut Source) -> Box<dyn Case> {
    Box::new(C06Case(gen_rank_world(src, false, false)))
}

impl Case for C06Case {
    fn describe(&self) -> Value {
        self.0.describe()
    }
    fn key(&self) -> u64 {
        hash64(self)
    }
    fn check(&self, ctx: &mut Ctx) -> Result<(), Violation> {
        let w = &self.0;
        let n = w.recs.len();
        let store = build_store(w.lang, &w.recs, w.limit);
        let big = build_store(w.lang, &w.recs, n + 3);
        // "depends only on that record and the query": not on what this thread searched before.
        // A decoy store in another language is asked the same question first.
        let decoy_lang = LANGS[(LANGS.iter().position(|l| *l == w.lang).unwrap_or(0) + 1 + (w.picks[0] as usize % 6)) % 7];
        let decoy = build_store(decoy_lang, &w.recs[..n.min(8)], 10);
        for q in &w.queries {
            let _ = search(&decoy, q);
            let hits = search(&store, q);
            let _ = search(&decoy, q);
            let full = search(&big, q);
            let info = |x: String| format!("lang={} query={:?} limit={} n={} hits={:?} unlimited={:?} {}", w.lang, q, w.limit, n, hits.iter().map(|h| h.0).collect::<Vec<_>>(), full.iter().map(|h| h.0).collect::<Vec<_>>(), x);
            if hits.len() > w.limit {
                return ctx.fail("more-than-limit", "", info(String::new()));
            }
            let mut ids: Vec<usize> = hits.iter().map(|h| h.0).collect();
            ids.sort();
            ids.dedup();
            if ids.len() != hits.len() {
                return ctx.fail("record-twice", "", info(String::new()));
            }
            let mut fids: Vec<usize> = full.iter().map(|h| h.0).collect();
            fids.sort();
            fids.dedup();
            if fids.len() != full.len() {
                return ctx.fail("record-twice", "", info("(unlimited list)".into()));
            }
            // every record's own verdict
            for r in &w.recs {
                let s = match solo(w.lang, r.clone(), q.clone()) {
                    Ok(s) => s,
                    Err(e) => return ctx.fail("solo-search-panicked", "", info(e)),
                };
                ctx.count("solo_searches", 1);
                let infull = full.iter().find(|h| h.0 == r.0);
                match (s.first(), infull) {
                    (Some(a), Some(b)) => {
                        if a != b {
                            return ctx.fail("highlight-differs-from-solo", "", info(format!("record {:?}: alone {:?}, in the store {:?}", r, a, b)));
                        }
                    }
                    (None, None) => {}
                    (Some(a), None) => return ctx.fail("solo-hit-missing", "", info(format!("record {:?} is a hit on its own ({:?}) but missing from the unlimited list", r, a))),
                    (None, Some(b)) => return ctx.fail("hit-not-a-solo-hit", "", info(format!("record {:?} is listed ({:?}) but is not a hit on its own", r, b))),
                }
                if let Some(h) = hits.iter().find(|h| h.0 == r.0) {
                    if s.first() != Some(h) {
                        return ctx.fail("limited-hit-differs-from-solo", "", info(format!("record {:?}: alone {:?}, in the limited list {:?}", r, s.first(), h)));
                    }
                }
            }
            if n <= 10 * w.limit {
                if hits.len() != w.limit.min(full.len()) {
                    return ctx.fail("not-the-first-limit-entries", "", info("(length)".into()));
                }
                if w.distinct {
                    let expect: Vec<(usize, String)> = full.iter().take(w.limit).cloned().collect();
                    if hits != expect {
                        return ctx.fail("not-the-first-limit-entries", "", info(String::new()));
                    }
                } else if hits.iter().any(|h| !full.iter().any(|f| f == h)) {
                    return ctx.fail("not-the-first-limit-entries", "", info("(a limited hit is not in the unlimited list)".into()));
                }
            }
            // how a title is highlighted depends only on the record and the query - also right after
            // the markers were changed on a store that has just answered the same question
            if n <= 12 && !hits.is_empty() {
                let mut st2 = build_store(w.lang, &w.recs, w.limit);
                let _ = search(&st2, q);
                st2.highlight_with(("<<", ">>"));
                let again = search(&st2, q);
                for h in &again {
                    let r = w.recs.iter().find(|r| r.0 == h.0).unwrap().clone();
                    let (lang, q2) = (w.lang, q.clone());
                    let s = isolated(move || {
                        let mut s = build_store(lang, &[r], 1);
                        s.highlight_with(("<<", ">>"));
                        search(&s, &q2)
                    });
                    ctx.count("solo_searches", 1);
                    match s {
                        Ok(s) => {
                            if s.first() != Some(h) {
                                return ctx.fail("highlight-differs-from-solo", "after-marker-change", info(format!("after highlight_with(<<,>>) the store returns {:?}, the record alone {:?}", h, s.first())));
                            }
                        }
                        Err(e) => return ctx.fail("solo-search-panicked", "", info(e)),
                    }
                }
            }
            let truncated = full.len() > w.limit;
            ctx.label_if(truncated, "truncated");
            ctx.label_if(n > 2 * w.limit && w.limit > 0, "buffer-resorted");
            ctx.label_if(n > 10 * w.limit, "beyond-10x-limit");
            ctx.label_if(full.is_empty(), "no-hits");
            if truncated || (n > 2 * w.limit && !full.is_empty()) {
                ctx.nontrivial();
            }
        }
        Ok(())
    }
}

pub fn def_c06() -> PropDef {
    PropDef {
        id: "C06",
        title: "The hit list is each record's own verdict, cut to the best `limit`",
        rule: "random stores of 1-60 records built from a tiny per-case vocabulary (many candidates per query), unique ids, ratings pairwise distinct in half of the cases and tie-heavy (0-3) in the other half, limit 0..|store|+2, 1-2 related queries. Each record is additionally searched alone in a one-record store built in a fresh thread, and the whole store with limit |store|+3. Exact order is compared only with distinct ratings and |store| <= 10*limit. Non-trivial = the unlimited list is longer than the limit, or the store is larger than 2*limit with >= 1 hit; distinct = distinct world",
        assumptions: &["with rating ties only length and membership of the limited list are compared (the order among fully tied hits is unspecified)"],
        spaces: vec![Space { name: "world", decode: decode_c06, plan: |t| Plan::Random(t.n(20_000, 500_000)) }],
        differential: false,
        floors: &[("solo_searches", 5.0)],
    }
}

// ------------------------------------------------------------------------------------ C07

#[derive(Clone, Debug, Hash)]
pub struct C07Case(pub RankWorld);

pub fn decode_c07(src: &mut Source) -> Box<dyn Case> {
    let mut w = gen_rank_world(src, true, true);
    // ratings are `usize`: the order must stay consistent over the whole range, not only for
    // small numbers (timestamps used as ratings are >= 2^31). The shift keeps them distinct.
    match src.weighted(&[5, 1, 1, 1, 2]) {
        4 => {
            // dense high ratings: neighbours about 1 % apart, the ends several per cent apart
            let base = *src.pick(&[1000usize, 10_000, 250_000]);
            let step = base / *src.pick(&[60usize, 100, 150, 300]);
            let mut order: Vec<usize> = (0..w.recs.len()).collect();
            order.sort_by_key(|&i| w.recs[i].2);
            for (rank, &i) in order.iter().enumerate() {
                w.recs[i].2 = base + rank * step.max(1);
            }
        }
        1 => w.recs.iter_mut().for_each(|r| r.2 += 1usize << 31),
        2 => w.recs.iter_mut().for_each(|r| r.2 = (r.2 << 20) + (1usize << 40)),
        3 => w.recs.iter_mut().for_each(|r| r.2 = (1usize << 32) - 1 - r.2),
        _ => {}
    }
    // ids are user-supplied and need not be unique: two records under one id are still two hits
    if src.chance(1, 6) && w.recs.len() >= 2 {
        let k = src.range(1, 3);
        for _ in 0..k {
            let a = src.below(w.recs.len());
            let b = src.below(w.recs.len());
            if a != b && w.recs[a].1 != w.recs[b].1 {
                w.recs[b].0 = w.recs[a].0;
            }
        }
        // hits are told apart by (id, title): keep titles distinct within an id
        let mut seen = std::collections::BTreeSet::new();
        let mut next = w.recs.len() + 1;
        for r in w.recs.iter_mut() {
            if !seen.insert((r.0, r.1.clone())) {
                r.0 = next;
                next += 1;
            }
        }
    }
    Box::new(C07Case(w))
}

impl Case for C07Case {
    fn describe(&self) -> Value {
        let mut d = self.0.describe();
        d["insert_permutation"] = json!(self.0.perm);
        d
    }
    fn key(&self) -> u64 {
        hash64(self)
    }
    fn check(&self, ctx: &mut Ctx) -> Result<(), Violation> {
        let w = &self.0;
        let n = w.recs.len();
        let store = build_store(w.lang, &w.recs, w.limit);
        let permuted: Vec<Rec> = w.perm.iter().map(|&i| w.recs[i].clone()).collect();
        let store2 = build_store(w.lang, &permuted, w.limit);
        let identity = w.perm.iter().enumerate().all(|(i, &p)| i == p);
        // the same store emptied and refilled in the permuted order must agree as well - for the
        // typed queries and for the empty one (with distinct ratings its order is fully determined)
        let mut store3 = build_store(w.lang, &w.recs, w.limit);
        let mut all_q: Vec<String> = w.queries.clone();
        if w.picks[3] % 3 == 0 {
            all_q.push(String::new());
        }
        let before: Vec<Vec<(usize, String)>> = all_q.iter().map(|q| search(&store3, q)).collect();
        store3.clear();
        for r in &permuted {
            store3.add(lucid_suggest_core::Record::new(r.0, &r.1, r.2, &store3.lang));
        }
        for (q, b) in all_q.iter().zip(before.iter()) {
            let after = search(&store3, q);
            if &after != b {
                return ctx.fail("insert-order-changes-hits", "after-reload", format!("lang={} query={:?} limit={} n={}: before clear {:?}; after clear and re-adding in order {:?}: {:?}", w.lang, q, w.limit, n, b, w.perm, after));
            }
        }
        for q in &w.queries {
            let hits = search(&store, q);
            let hits2 = search(&store2, q);
            let info = |x: String| format!("lang={} query={:?} limit={} n={} {}", w.lang, q, w.limit, n, x);
            if hits != hits2 {
                return ctx.fail("insert-order-changes-hits", "", info(format!("inserted in given order {:?}; permuted {:?} gives {:?}", hits, w.perm, hits2)));
            }
            if hits.len() >= 2 {
                for k in 0..3usize {
                    let a = w.picks[k * 2] as usize % hits.len();
                    let b = w.picks[k * 2 + 1] as usize % hits.len();
                    if a >= b {
                        continue;
                    }
                    let dup = |id: usize| w.recs.iter().filter(|r| r.0 == id).count() > 1;
                    if dup(hits[a].0) || dup(hits[b].0) {
                        ctx.count("pair_skipped_duplicate_id", 1);
                        continue;
                    }
                    let ra = w.recs.iter().find(|r| r.0 == hits[a].0).unwrap().clone();
                    let rb = w.recs.iter().find(|r| r.0 == hits[b].0).unwrap().clone();
                    for pair in [vec![ra.clone(), rb.clone()], vec![rb.clone(), ra.clone()]] {
                        let lang = w.lang;
                        let q2 = q.clone();
                        let p2 = pair.clone();
                        let h = match isolated(move || search(&build_store(lang, &p2, 10), &q2)) {
                            Ok(h) => h,
                            Err(e) => return ctx.fail("pair-search-panicked", "", info(e)),
                        };
                        ctx.count("pair_stores", 1);
                        let pa = h.iter().position(|x| x.0 == ra.0);
                        let pb = h.iter().position(|x| x.0 == rb.0);
                        match (pa, pb) {
                            (Some(x), Some(y)) => {
                                if x > y {
                                    return ctx.fail("pair-order-differs", "", info(format!("in the store {:?} precedes {:?}; alone (inserted {:?}) the order is reversed: {:?}", ra, rb, pair.iter().map(|r| r.0).collect::<Vec<_>>(), h)));
                                }
                            }
                            _ => ctx.count("pair_member_not_a_hit_alone(C06)", 1),
                        }
                    }
                }
            }
            ctx.label_if(hits.len() >= 3, ">=3-hits");
            ctx.label_if(!identity, "non-identity-permutation");
            ctx.label_if(w.recs.iter().any(|r| r.2 >= 1usize << 31), "ratings>=2^31");
            ctx.label_if({ let mut ids: Vec<usize> = w.recs.iter().map(|r| r.0).collect(); ids.sort(); ids.dedup(); ids.len() < w.recs.len() }, "duplicate-ids");
            ctx.label_if(n > 100, "store>100");
            ctx.label_if(n == 10 * w.limit, "store==10x-limit");
            ctx.label_if(n > 1000, "store>1000");
            if hits.len() >= 3 && !identity {
                ctx.nontrivial();
            }
        }
        Ok(())
    }
}

pub fn def_c07() -> PropDef {
    PropDef {
        id: "C07",
        title: "Ranking is a consistent order, independent of other records and insert order",
        rule: "random stores as C06 but always with pairwise distinct ratings and |store| <= 10*limit; metamorphic: (i) the same records inserted in a random permutation give the identical hit list; (ii) for up to 3 sampled pairs of hits (a before b) both two-record stores [a,b] and [b,a], built in fresh threads, list a before b. Non-trivial = >= 3 hits and a non-identity permutation; distinct = distinct world",
        assumptions: &["a pair member that is not a hit in its two-record store is C06's business and only counted here"],
        spaces: vec![Space { name: "world", decode: decode_c07, plan: |t| Plan::Random(t.n(80_000, 1_500_000)) }],
        differential: false,
        floors: &[("pair_stores", 0.3)],
    }
}

// ------------------------------------------------------------------------------------ C12

#[derive(Clone, Debug, Hash)]
pub struct C12Case {
    pub lang: &'static str,
    pub recs: Vec<Rec>,
    pub limit: usize,
    pub query: String,
    pub distinct: bool,
    /// history variant: steps applied after the first search (every Search is judged)
    pub steps: Vec<Step>,
}

#[derive(Clone, Debug, Hash)]
pub enum Step {
    Add(Vec<Rec>),
    Limit(usize),
    Search,
    /// clear the store and fill it with exactly as many records as it held (other ratings)
    Reload(Vec<Rec>),
}

fn variant(src: &mut Source, lang: &str, w: &str) -> String {
    // case / accent variants that normalise equal
    let mut s = String::new();
    for c in w.chars() {
        match src.below(4) {
            0 => s.extend(c.to_uppercase()),
            1 => {
                // an accented letter of the language that folds to c
                let inv = inventory(lang);
                let cand: Vec<char> = inv.iter().cloned().filter(|&a| fold_of(lang, a).map(|f| f.chars().count() == 1 && f.chars().next() == Some(c)).unwrap_or(false)).collect();
                if cand.is_empty() { s.push(c) } else { s.push(*src.pick(&cand)) }
            }
            _ => s.push(c),
        }
    }
    s
}

pub fn decode_c12(src: &mut Source) -> Box<dyn Case> {
    let lang = gen_lang(src);
    let plain = plain_letters(lang);
    let nv = src.range(2, 4);
    let vocab: Vec<String> = (0..nv).map(|_| (0..src.range(1, 3)).map(|_| plain[src.below(4)]).collect()).collect();
    let nrec = match src.weighted(&[60, 360, 180, 1]) {
        0 => 0,
        1 => src.range(1, 12),
        2 => src.range(13, 40),
        // now and then a catalogue beyond a thousand records with a limit in the hundreds
        _ => src.range(1024, 1400),
    };
    let distinct = src.chance(1, 2);
    let total = nrec + 6;
    let ratings: Vec<usize> = if distinct { gen_distinct_ratings(src, total) } else { (0..total).map(|_| src.below(3)).collect() };
    let mk = |src: &mut Source, k: usize| -> Rec {
        let nw = src.range(1, 3);
        let words: Vec<String> = (0..nw).map(|_| {
            let w = src.pick(&vocab).clone();
            if src.chance(1, 3) { variant(src, lang, &w) } else { w }
        }).collect();
        if src.chance(1, 12) {
            // a title without any letter or digit: still a record, still listed by an empty query
            return (k + 1, src.pick(&["", "???", "— — —", " ", "-", "!"]).to_string(), ratings[k]);
        }
        (k + 1, words.join(*src.pick(&[" ", " ", "-", "  "])), ratings[k])
    };
    let recs: Vec<Rec> = (0..nrec).map(|k| mk(src, k)).collect();
    let limit = if nrec >= 1024 { src.range(500, nrec + 2) } else { src.below(nrec + 3) };
    let query = src.pick(&["", " ", "-", "' ", "\0", "+ -", "\u{301}", "  ", ".", "()", "¿", "«»", "€", "•", "“ ”", "°", "¡!", "\u{a0}", "…", "§"]).to_string();
    // history: in half of the cases 1-5 further steps (adds, limit changes, searches in any order)
    let mut steps: Vec<Step> = Vec::new();
    if src.chance(1, 2) {
        let mut added = 0usize;
        let mut cur_limit = limit;
        let nsteps = src.range(1, 5);
        for _ in 0..nsteps {
            match src.weighted(&[3, 3, 2, 2]) {
                3 => {
                    let n_now = nrec + added;
                    if n_now > 0 {
                        // (distinct ratings stay distinct: each reload draws from its own thousand)
                        let reloads = steps.iter().filter(|x| matches!(x, Step::Reload(_))).count();
                        let newr: Vec<usize> = if distinct { gen_distinct_ratings(src, n_now).into_iter().map(|r| r + 100_000 * (reloads + 1)).collect() } else { (0..n_now).map(|_| src.below(3)).collect() };
                        let fresh: Vec<Rec> = (0..n_now).map(|i| { let mut r = mk(src, i % total); r.0 = 100_000 * (reloads + 1) + i + 1; r.2 = newr[i]; r }).collect();
                        steps.push(Step::Reload(fresh));
                    }
                }
                0 => {
                    // often exactly as many adds as the limit was raised by
                    let k = if src.chance(1, 2) && cur_limit > limit && cur_limit - limit <= 6 { cur_limit - limit } else { src.range(1, 6) };
                    let k = k.min(total - nrec - added.min(total - nrec));
                    if k > 0 {
                        let more: Vec<Rec> = (0..k).map(|i| mk(src, nrec + added + i)).collect();
                        added += k;
                        steps.push(Step::Add(more));
                    }
                }
                1 => {
                    cur_limit = src.below(nrec + added + 3);
                    steps.push(Step::Limit(cur_limit));
                }
                _ => steps.push(Step::Search),
            }
        }
        steps.push(Step::Search);
    }
    Box::new(C12Case { lang, recs, limit, query, distinct, steps })
}

impl C12Case {
    fn judge(&self, ctx: &mut Ctx, stage: &str, recs: &[Rec], limit: usize, hits: &[(usize, String)]) -> Result<(), Violation> {
        let l = lang_of(self.lang);
        let table = compose_table_for(self.lang);
        let n = recs.len();
        let info = |x: String| format!("lang={} stage={} query={:?} limit={} records={:?} hits={:?} {}", self.lang, stage, self.query, limit, recs, hits, x);
        if hits.len() != limit.min(n) {
            return ctx.fail("count", "", info(format!("expected {} hits", limit.min(n))));
        }
        // indexes by id (stores of a thousand records: no quadratic look-ups)
        let by_id: std::collections::HashMap<usize, &Rec> = recs.iter().map(|r| (r.0, r)).collect();
        let rat = |id: usize| by_id.get(&id).map(|r| r.2);
        let mut seen = std::collections::HashSet::new();
        for h in hits {
            let r = match by_id.get(&h.0) {
                Some(r) => *r,
                None => return ctx.fail("unknown-id", "", info(format!("id {}", h.0))),
            };
            if !seen.insert(h.0) {
                return ctx.fail("record-twice", "", info(format!("id {}", h.0)));
            }
            let cs: Vec<char> = r.1.chars().collect();
            let plain: String = compose_model(table, &cs).into_iter().filter(|&c| c != '\0').collect();
            if h.1 != plain {
                return ctx.fail("highlighted-or-altered", "", info(format!("id {} returned {:?} expected the plain title {:?}", h.0, h.1, plain)));
            }
        }
        if hits.windows(2).any(|w| rat(w[0].0) < rat(w[1].0)) {
            return ctx.fail("rating-increases", "", info(String::new()));
        }
        // "no omitted record beats a listed one": it is enough to compare every omitted record with
        // the worst listed one (lowest rating, and among those the latest normalised title)
        if !hits.is_empty() {
            let worst_rating = hits.iter().map(|h| rat(h.0).unwrap()).min().unwrap();
            let worst_chars: Vec<char> = hits.iter().filter(|h| rat(h.0).unwrap() == worst_rating).map(|h| tokenize_record(&by_id[&h.0].1, &l).chars).max().unwrap();
            for o in recs.iter().filter(|r| !seen.contains(&r.0)) {
                if o.2 > worst_rating {
                    return ctx.fail("omitted-higher-rating", "", info(format!("omitted {:?} while a record rated {} is listed", o, worst_rating)));
                }
                if o.2 == worst_rating && tokenize_record(&o.1, &l).chars < worst_chars {
                    return ctx.fail("omitted-earlier-title", "", info(format!("omitted {:?} sorts before a listed record of equal rating ({:?})", o, worst_chars.iter().collect::<String>())));
                }
            }
        } else if limit > 0 && n > 0 {
            return ctx.fail("count", "", info("no hits".into()));
        }
        if self.distinct {
            let mut exp: Vec<&Rec> = recs.iter().collect();
            exp.sort_by(|a, b| b.2.cmp(&a.2));
            let exp: Vec<usize> = exp.iter().take(limit).map(|r| r.0).collect();
            if hits.iter().map(|h| h.0).collect::<Vec<_>>() != exp {
                return ctx.fail("not-top-by-rating", "", info(format!("expected ids {:?}", exp)));
            }
        }
        // a tie straddling the cut?
        if n > limit && limit > 0 {
            let last = rat(hits[hits.len() - 1].0).unwrap();
            if recs.iter().any(|r| !seen.contains(&r.0) && r.2 == last) {
                ctx.label("tie-straddles-cut");
                ctx.nontrivial();
            }
            ctx.label("truncated");
        }
        Ok(())
    }
}

impl Case for C12Case {
    fn describe(&self) -> Value {
        json!({"lang": self.lang, "limit": self.limit, "query": show(&self.query), "distinct_ratings": self.distinct,
               "records": self.recs.iter().map(|(id, t, r)| json!([id, show(t), r])).collect::<Vec<_>>(),
               "then": self.steps.iter().map(|st| match st {
                   Step::Add(v) => json!({"add": v.iter().map(|(id, t, r)| json!([id, show(t), r])).collect::<Vec<_>>()}),
                   Step::Limit(l) => json!({"limit": l}),
                   Step::Search => json!("search"),
                   Step::Reload(v) => json!({"clear_then_add": v.iter().map(|(id, t, r)| json!([id, show(t), r])).collect::<Vec<_>>()}),
               }).collect::<Vec<_>>()})
    }
    fn key(&self) -> u64 {
        hash64(self)
    }
    fn check(&self, ctx: &mut Ctx) -> Result<(), Violation> {
        let mut store = build_store(self.lang, &self.recs, self.limit);
        store.highlight_with(("<<", ">>"));
        let hits = search(&store, &self.query);
        self.judge(ctx, "initial", &self.recs, self.limit, &hits)?;
        if !self.steps.is_empty() {
            let mut recs = self.recs.clone();
            let mut limit = self.limit;
            let mut k = 0;
            for st in &self.steps {
                match st {
                    Step::Add(more) => {
                        for r in more {
                            store.add(lucid_suggest_core::Record::new(r.0, &r.1, r.2, &store.lang));
                            recs.push(r.clone());
                        }
                    }
                    Step::Reload(fresh) => {
                        store.clear();
                        recs.clear();
                        for r in fresh {
                            store.add(lucid_suggest_core::Record::new(r.0, &r.1, r.2, &store.lang));
                            recs.push(r.clone());
                        }
                        ctx.label("reloaded-same-size");
                    }
                    Step::Limit(l) => {
                        ctx.label_if(*l > limit, "limit-raised");
                        ctx.label_if(*l < limit, "limit-lowered");
                        store.limit = *l;
                        limit = *l;
                    }
                    Step::Search => {
                        k += 1;
                        let hits = search(&store, &self.query);
                        self.judge(ctx, if k == 1 { "history-search-1" } else { "history-search-n" }, &recs, limit, &hits)?;
                    }
                }
            }
            ctx.label("history-variant");
            ctx.nontrivial();
        }
        ctx.label_if(self.recs.is_empty(), "empty-store");
        ctx.label_if(self.recs.len() >= 1024, "store>=1024");
        ctx.label_if(self.steps.iter().any(|x| matches!(x, Step::Limit(_))) && !self.steps.iter().any(|x| matches!(x, Step::Add(_))), "limit-change-only");
        ctx.label_if(self.recs.iter().any(|r| !r.1.chars().any(|c| c.is_alphanumeric())), "wordless-title");
        ctx.label_if(self.limit == 0, "limit-0");
        Ok(())
    }
}

pub fn def_c12() -> PropDef {
    PropDef {
        id: "C12",
        title: "An empty query lists the top-rated records",
        rule: "random stores of 0-40 records whose titles are 1-3 words over a vocabulary of 2-4 one-to-three-letter words with case / accent variants that normalise equal (duplicate and near-duplicate titles), ratings pairwise distinct or drawn from {0,1,2}, limit 0..|store|+2, a separator-only query; in half of the cases the history variant: search, add 1-6 more records, search again, change the limit, search again. Non-trivial = a rating tie straddling the cut (n > limit > 0), or the history variant; distinct = distinct case",
        assumptions: &["title order is the code-point order of the full public normalised character array of the record"],
        spaces: vec![Space { name: "store", decode: decode_c12, plan: |t| Plan::Random(t.n(250_000, 4_000_000)) }],
        differential: false,
        floors: &[],
    }
}
