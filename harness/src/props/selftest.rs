//! Planted failures used to test the engine itself (tools/selftest.sh); never registered in
//! MANIFEST.json. ST1 oracle failure with a known minimal form, ST2 panic, ST3 abort (process
//! death), ST4 hang (watchdog), ST5 runaway allocation (address-space cap), ST6 always passes.

use crate::core::*;
use crate::source::Source;
use serde_json::{json, Value};

#[derive(Clone, Debug, Hash)]
pub struct St {
    pub which: u8,
    pub xs: Vec<u32>,
}

fn decode_with(src: &mut Source, which: u8) -> Box<dyn Case> {
    let mut xs = Vec::new();
    while xs.len() < 30 && src.chance(9, 10) {
        xs.push(src.below(1000) as u32);
    }
    Box::new(St { which, xs })
}

pub fn d1(s: &mut Source) -> Box<dyn Case> { decode_with(s, 1) }
pub fn d2(s: &mut Source) -> Box<dyn Case> { decode_with(s, 2) }
pub fn d3(s: &mut Source) -> Box<dyn Case> { decode_with(s, 3) }
pub fn d4(s: &mut Source) -> Box<dyn Case> { decode_with(s, 4) }
pub fn d5(s: &mut Source) -> Box<dyn Case> { decode_with(s, 5) }
pub fn d6(s: &mut Source) -> Box<dyn Case> { decode_with(s, 6) }

impl Case for St {
    fn describe(&self) -> Value {
        json!({"xs": self.xs})
    }
    fn key(&self) -> u64 {
        hash64(self)
    }
    fn check(&self, ctx: &mut Ctx) -> Result<(), Violation> {
        // the planted bug: two elements >= 500 that are adjacent-or-one-apart, the first one odd.
        // minimal failing case: xs = [501, 500]
        let trig = self.xs.windows(2).any(|w| w[0] >= 500 && w[1] >= 500 && w[0] % 2 == 1)
            || self.xs.windows(3).any(|w| w[0] >= 500 && w[2] >= 500 && w[0] % 2 == 1);
        if self.xs.len() >= 2 {
            ctx.nontrivial();
        }
        if trig {
            match self.which {
                1 => return ctx.fail("planted-oracle", "", format!("xs={:?}", self.xs)),
                2 => panic!("planted panic"),
                3 => std::process::abort(),
                4 => loop {
                    std::thread::sleep(std::time::Duration::from_millis(50));
                },
                5 => {
                    let mut v: Vec<u64> = Vec::new();
                    loop {
                        v.push(v.len() as u64);
                        if v.len() % (1 << 20) == 0 {
                            std::hint::black_box(&v);
                        }
                    }
                }
                _ => {}
            }
        }
        Ok(())
    }
}

fn mk(id: &'static str, decode: fn(&mut Source) -> Box<dyn Case>) -> PropDef {
    PropDef { id, title: "engine self-test", rule: "planted failure", assumptions: &[], spaces: vec![Space { name: "xs", decode, plan: |t| Plan::Random(t.n(20_000, 20_000)) }], differential: false, floors: &[] }
}

pub fn defs() -> Vec<PropDef> {
    vec![mk("ST1", d1), mk("ST2", d2), mk("ST3", d3), mk("ST4", d4), mk("ST5", d5), mk("ST6", d6)]
}
