//! Choice-sequence source: every generator draws all of its randomness through
//! `Source::below`, so one decoder serves random search, exhaustive enumeration,
//! coverage-guided fuzzing (bytes) and replay / shrinking (recorded vector).

#[derive(Clone, Copy, Debug, PartialEq, Eq)]
pub enum PrngKind {
    SplitMix,
    Xoshiro,
    Pcg,
}

impl PrngKind {
    pub fn from_env_or_seed(seed: u64) -> PrngKind {
        match std::env::var("VERIF_PRNG").ok().as_deref() {
            Some("splitmix") => PrngKind::SplitMix,
            Some("xoshiro") => PrngKind::Xoshiro,
            Some("pcg") => PrngKind::Pcg,
            _ => match seed % 3 {
                0 => PrngKind::SplitMix,
                1 => PrngKind::Xoshiro,
                _ => PrngKind::Pcg,
            },
        }
    }
    pub fn name(&self) -> &'static str {
        match self {
            PrngKind::SplitMix => "splitmix",
            PrngKind::Xoshiro => "xoshiro",
            PrngKind::Pcg => "pcg",
        }
    }
    pub fn parse(s: &str) -> PrngKind {
        match s {
            "xoshiro" => PrngKind::Xoshiro,
            "pcg" => PrngKind::Pcg,
            _ => PrngKind::SplitMix,
        }
    }
}

#[derive(Clone, Debug)]
pub enum Prng {
    SplitMix(u64),
    Xoshiro([u64; 4]),
    Pcg { state: u64, inc: u64 },
}

fn splitmix_next(s: &mut u64) -> u64 {
    *s = s.wrapping_add(0x9E3779B97F4A7C15);
    let mut z = *s;
    z = (z ^ (z >> 30)).wrapping_mul(0xBF58476D1CE4E5B9);
    z = (z ^ (z >> 27)).wrapping_mul(0x94D049BB133111EB);
    z ^ (z >> 31)
}

pub fn mix(a: u64, b: u64) -> u64 {
    let mut s = a ^ b.wrapping_mul(0xD6E8FEB86659FD93).rotate_left(23);
    let x = splitmix_next(&mut s);
    x ^ splitmix_next(&mut s).rotate_left(17)
}

pub fn mix_str(a: u64, s: &str) -> u64 {
    let mut h = a ^ 0xcbf29ce484222325;
    for b in s.bytes() {
        h ^= b as u64;
        h = h.wrapping_mul(0x100000001b3);
    }
    mix(h, 0x5bd1e995)
}

impl Prng {
    pub fn new(kind: PrngKind, seed: u64) -> Prng {
        let mut s = seed;
        match kind {
            PrngKind::SplitMix => Prng::SplitMix(seed ^ 0xA5A5A5A5DEADBEEF),
            PrngKind::Xoshiro => {
                let st = [
                    splitmix_next(&mut s),
                    splitmix_next(&mut s),
                    splitmix_next(&mut s),
                    splitmix_next(&mut s) | 1,
                ];
                Prng::Xoshiro(st)
            }
            PrngKind::Pcg => {
                let inc = (splitmix_next(&mut s) << 1) | 1;
                let mut p = Prng::Pcg { state: 0, inc };
                p.next_u64();
                if let Prng::Pcg { state, .. } = &mut p {
                    *state = state.wrapping_add(splitmix_next(&mut s));
                }
                p.next_u64();
                p
            }
        }
    }

    fn pcg32(state: &mut u64, inc: u64) -> u32 {
        let old = *state;
        *state = old.wrapping_mul(6364136223846793005).wrapping_add(inc);
        let xorshifted = (((old >> 18) ^ old) >> 27) as u32;
        let rot = (old >> 59) as u32;
        xorshifted.rotate_right(rot)
    }

    pub fn next_u64(&mut self) -> u64 {
        match self {
            Prng::SplitMix(s) => splitmix_next(s),
            Prng::Xoshiro(s) => {
                let result = s[1].wrapping_mul(5).rotate_left(7).wrapping_mul(9);
                let t = s[1] << 17;
                s[2] ^= s[0];
                s[3] ^= s[1];
                s[1] ^= s[2];
                s[0] ^= s[3];
                s[2] ^= t;
                s[3] = s[3].rotate_left(45);
                result
            }
            Prng::Pcg { state, inc } => {
                let hi = Self::pcg32(state, *inc) as u64;
                let lo = Self::pcg32(state, *inc) as u64;
                (hi << 32) | lo
            }
        }
    }
}

enum Mode {
    Random(Prng),
    Replay { vals: Vec<u32>, pos: usize },
    Bytes { data: Vec<u8>, pos: usize },
}

pub struct Source {
    mode: Mode,
    /// every value handed out, in order: the shrinkable / replayable form of the case
    pub rec: Vec<u32>,
    /// bound requested at each draw (parallel to `rec`); lets a case be re-encoded as bytes
    pub bounds: Vec<u32>,
    /// replay only: number of draws beyond the end of the vector
    pub overrun: usize,
}

impl Source {
    pub fn random(kind: PrngKind, seed: u64) -> Source {
        Source { mode: Mode::Random(Prng::new(kind, seed)), rec: Vec::new(), bounds: Vec::new(), overrun: 0 }
    }
    pub fn replay(vals: &[u32]) -> Source {
        Source { mode: Mode::Replay { vals: vals.to_vec(), pos: 0 }, rec: Vec::new(), bounds: Vec::new(), overrun: 0 }
    }
    pub fn bytes(data: &[u8]) -> Source {
        Source { mode: Mode::Bytes { data: data.to_vec(), pos: 0 }, rec: Vec::new(), bounds: Vec::new(), overrun: 0 }
    }

    /// uniform-ish value in [0, n); n >= 1. 0 is always the "simplest" choice.
    pub fn below(&mut self, n: usize) -> usize {
        let n = n.max(1);
        debug_assert!(n as u64 <= 1u64 << 32);
        let v = match &mut self.mode {
            Mode::Random(p) => {
                if n == 1 {
                    0
                } else {
                    (((p.next_u64() >> 32) * n as u64) >> 32) as usize
                }
            }
            Mode::Replay { vals, pos } => {
                let v = if *pos < vals.len() {
                    (vals[*pos] as usize).min(n - 1)
                } else {
                    self.overrun += 1;
                    0
                };
                *pos += 1;
                v
            }
            Mode::Bytes { data, pos } => {
                if n == 1 {
                    0
                } else {
                    let k = if n <= 256 { 1 } else if n <= 65536 { 2 } else { 4 };
                    let mut x: u64 = 0;
                    for i in 0..k {
                        let b = if *pos < data.len() { data[*pos] } else { 0 } as u64;
                        *pos += 1;
                        x |= b << (8 * i);
                    }
                    ((x * n as u64) >> (8 * k)) as usize
                }
            }
        };
        self.rec.push(v as u32);
        self.bounds.push(n.min(u32::MAX as usize) as u32);
        v
    }

    /// the recorded case re-encoded for `Source::bytes`
    pub fn to_bytes(&self) -> Vec<u8> {
        let mut e = ByteEncoder::new();
        for (v, n) in self.rec.iter().zip(self.bounds.iter()) {
            e.push(*v as usize, *n as usize);
        }
        e.out
    }

    /// inclusive range
    pub fn range(&mut self, lo: usize, hi: usize) -> usize {
        debug_assert!(hi >= lo);
        lo + self.below(hi - lo + 1)
    }

    /// true with probability num/den; false is the simple choice
    pub fn chance(&mut self, num: usize, den: usize) -> bool {
        let v = self.below(den);
        v >= den - num.min(den)
    }

    pub fn pick<'a, T>(&mut self, xs: &'a [T]) -> &'a T {
        &xs[self.below(xs.len())]
    }

    /// index drawn with the given weights; index 0 is the simple choice
    pub fn weighted(&mut self, w: &[usize]) -> usize {
        let total: usize = w.iter().sum();
        let mut v = self.below(total.max(1));
        for (i, &x) in w.iter().enumerate() {
            if v < x {
                return i;
            }
            v -= x;
        }
        w.len() - 1
    }

    pub fn exhausted_bytes(&self) -> bool {
        match &self.mode {
            Mode::Bytes { data, pos } => *pos >= data.len(),
            _ => false,
        }
    }
}

/// Encode a choice vector as bytes that `Source::bytes` decodes back to (approximately)
/// the same case, given the sequence of bounds actually requested. Used to seed fuzz corpora.
pub struct ByteEncoder {
    pub out: Vec<u8>,
}

impl ByteEncoder {
    pub fn new() -> Self {
        ByteEncoder { out: Vec::new() }
    }
    pub fn push(&mut self, v: usize, n: usize) {
        let n = n.max(1);
        if n == 1 {
            return;
        }
        let k = if n <= 256 { 1 } else if n <= 65536 { 2 } else { 4 };
        // smallest x with (x*n) >> 8k == v  =>  x = ceil(v * 2^8k / n)
        let x = (((v as u128) << (8 * k)) + n as u128 - 1) / n as u128;
        for i in 0..k {
            self.out.push(((x >> (8 * i)) & 0xff) as u8);
        }
    }
}

#[cfg(test)]
mod tests {
    use super::*;
    #[test]
    fn bytes_roundtrip() {
        for &n in &[2usize, 3, 7, 255, 256, 257, 1000, 65536, 70000, 0x110000, 1 << 31] {
            for &v in &[0usize, 1, n / 2, n - 1] {
                let mut e = ByteEncoder::new();
                e.push(v, n);
                let mut s = Source::bytes(&e.out);
                assert_eq!(s.below(n), v, "n={} v={}", n, v);
            }
        }
    }
    #[test]
    fn prngs_differ_and_cover() {
        for k in [PrngKind::SplitMix, PrngKind::Xoshiro, PrngKind::Pcg] {
            let mut s = Source::random(k, 42);
            let mut seen = [0usize; 10];
            for _ in 0..10000 {
                seen[s.below(10)] += 1;
            }
            assert!(seen.iter().all(|&c| c > 800 && c < 1200), "{:?} {:?}", k, seen);
        }
    }
}
