//! "Search world": language, records, limit, markers and queries related by construction.

use crate::core::show;
use crate::gen::*;
use crate::source::Source;
use serde_json::{json, Value};

#[derive(Clone, Debug, Hash)]
pub struct World {
    pub lang: &'static str,
    pub recs: Vec<Rec>,
    pub limit: usize,
    pub queries: Vec<String>,
    pub markers: (String, String),
    /// the store is filled, configured, cleared and filled again before it is asked anything
    pub refilled: bool,
}

#[derive(Clone, Copy)]
pub struct WorldOpts {
    pub flavor: Flavor,
    pub min_recs: usize,
    pub max_recs: usize,
    /// limit >= number of records (so no record can be cut)
    pub fits_limit: bool,
    pub dup_ids: bool,
    pub queries: usize,
    pub distinct_ratings: bool,
    /// how often titles are built from the tiny vocabulary (many candidates per query)
    pub joined_shapes: bool,
    /// also draw the harness's custom language (composes, never folds)
    pub ext_langs: bool,
}

impl WorldOpts {
    pub fn find() -> WorldOpts {
        WorldOpts { flavor: Flavor::Clean, min_recs: 1, max_recs: 10, fits_limit: true, dup_ids: false, queries: 0, distinct_ratings: false, joined_shapes: false, ext_langs: false }
    }
    pub fn highlight() -> WorldOpts {
        WorldOpts { flavor: Flavor::Adversarial, min_recs: 1, max_recs: 6, fits_limit: false, dup_ids: true, queries: 2, distinct_ratings: false, joined_shapes: true, ext_langs: false }
    }
}

/// titles engineered so that one query word matches two title words or vice versa
fn joined_title(src: &mut Source, lang: &str, vocab: &[String]) -> String {
    let w: Vec<char> = if !vocab.is_empty() && src.chance(1, 2) { src.pick(vocab).chars().collect() } else { gen_random_word(src, lang, false).chars().collect() };
    if w.len() < 2 {
        return w.into_iter().collect();
    }
    let k = if src.chance(1, 3) { 1 } else { 1 + src.below(w.len() - 1) };
    let gap = *src.pick(&[" ", "-", "  ", " - ", ""]);
    let mut t: String = w[..k].iter().collect();
    t.push_str(gap);
    t.extend(w[k..].iter());
    if src.chance(1, 3) {
        t.push(' ');
        t.push_str(&gen_random_word(src, lang, false));
    }
    t
}

pub fn gen_world(src: &mut Source, o: WorldOpts) -> World {
    let lang = if o.ext_langs { gen_lang_ext(src) } else { gen_lang(src) };
    let vocab = gen_vocab(src, lang, o.flavor, 2, 7);
    let nrec = src.range(o.min_recs, o.max_recs);
    let ratings: Vec<usize> = if o.distinct_ratings { gen_distinct_ratings(src, nrec) } else { (0..nrec).map(|_| gen_rating(src)).collect() };
    let mut recs: Vec<Rec> = Vec::new();
    for k in 0..nrec {
        let title = if o.joined_shapes && src.chance(1, 4) { joined_title(src, lang, &vocab) } else { gen_title(src, lang, &vocab, o.flavor) };
        let id = if o.dup_ids && k > 0 && src.chance(1, 12) { recs[src.below(k)].0 } else { k + 1 };
        recs.push((id, title, ratings[k]));
    }
    let limit = if o.fits_limit { nrec + src.below(3).max(if nrec == 0 { 1 } else { 0 }) } else { gen_limit(src, nrec) };
    let limit = if o.fits_limit { limit.max(1) } else { limit };
    let titles: Vec<String> = recs.iter().map(|r| r.1.clone()).collect();
    let queries = (0..o.queries).map(|_| gen_query(src, lang, &titles, &vocab, o.flavor)).collect();
    let refilled = src.chance(1, 8);
    World { lang, recs, limit, queries, markers: ("[".into(), "]".into()), refilled }
}

impl World {
    pub fn describe(&self) -> Value {
        json!({
            "lang": self.lang,
            "limit": self.limit,
            "records": self.recs.iter().map(|(id, t, r)| json!({"id": id, "title": show(t), "rating": r})).collect::<Vec<_>>(),
            "queries": self.queries.iter().map(|q| show(q)).collect::<Vec<_>>(),
            "markers": [show(&self.markers.0), show(&self.markers.1)],
            "cleared_and_refilled_first": self.refilled,
        })
    }
    pub fn store(&self) -> lucid_suggest_core::Store {
        let mut s = build_store(self.lang, &self.recs, self.limit);
        s.highlight_with((&self.markers.0, &self.markers.1));
        if self.refilled {
            // a store that was cleared and refilled is a store like any other
            s.clear();
            for (id, t, r) in &self.recs {
                s.add(lucid_suggest_core::Record::new(*id, t, *r, &s.lang));
            }
        }
        s
    }
}

/// The same store reached either directly (`Store`) or through the registry functions of lib.rs.
pub enum Backend {
    Direct(lucid_suggest_core::Store),
    Registry(usize),
}

impl World {
    /// `via_registry`: create_store / set_limit / highlight_with / add_record instead of Store
    pub fn backend(&self, via_registry: bool) -> Backend {
        if !via_registry {
            return Backend::Direct(self.store());
        }
        let id = 4242;
        lucid_suggest_core::create_store(id, lang_of(self.lang));
        lucid_suggest_core::set_limit(id, self.limit);
        lucid_suggest_core::highlight_with(id, (&self.markers.0, &self.markers.1));
        for (rid, t, r) in &self.recs {
            lucid_suggest_core::add_record(id, *rid, t, *r);
        }
        Backend::Registry(id)
    }
}

impl Backend {
    pub fn set_markers(&mut self, l: &str, r: &str) {
        match self {
            Backend::Direct(s) => s.highlight_with((l, r)),
            Backend::Registry(id) => lucid_suggest_core::highlight_with(*id, (l, r)),
        }
    }
    pub fn search(&self, q: &str) -> Vec<(usize, String)> {
        match self {
            Backend::Direct(s) => search(s, q),
            Backend::Registry(id) => {
                lucid_suggest_core::run_search(*id, q);
                lucid_suggest_core::using_results(*id, |res| res.iter().map(|r| (r.id, r.title.clone())).collect())
            }
        }
    }
}

impl Drop for Backend {
    fn drop(&mut self) {
        if let Backend::Registry(id) = self {
            if !std::thread::panicking() {
                lucid_suggest_core::destroy_store(*id);
            }
        }
    }
}
