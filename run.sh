#!/bin/bash
# Entry point for every registered command. Rebuilds the harness (and with it the
# current working tree of /repo/rust/core, a path dependency) before running anything.
#   run.sh setup
#   run.sh quick|thorough <Cxx>
#   run.sh replay <file>
set -u
ROOT="$(cd "$(dirname "${BASH_SOURCE[0]}")" && pwd)"
H="$ROOT/harness"
export CARGO_NET_OFFLINE=true
unset CARGO_TARGET_DIR CARGO_BUILD_TARGET_DIR RUSTFLAGS CARGO_ENCODED_RUSTFLAGS
export LSVERIF_ROOT="$ROOT"
CHECKED_FLAGS="--cfg lucid_suggest_verif"

build_checked() {
    (cd "$H" && RUSTFLAGS="$CHECKED_FLAGS" cargo build --release --offline 2>"$H/target/.build-checked.log") || {
        echo "BUILD-FAILED (checked profile); see $H/target/.build-checked.log" >&2
        tail -30 "$H/target/.build-checked.log" >&2
        return 2
    }
}

build_shipping() {
    # plain release build of the same sources, hooks off, in its own target dir
    (cd "$H" && RUSTFLAGS="" cargo build --profile shipping --offline --target-dir "$H/target-shipping" 2>"$H/target-shipping/.build-shipping.log") || {
        echo "BUILD-FAILED (shipping profile); see $H/target-shipping/.build-shipping.log" >&2
        tail -30 "$H/target-shipping/.build-shipping.log" >&2
        return 2
    }
}

mkdir -p "$H/target" "$H/target-shipping" "$ROOT/evidence/replays"
BIN="$H/target/release/lsverif"
export LSVERIF_SHIPPING="$H/target-shipping/shipping/lsverif"

cmd="${1:-}"
case "$cmd" in
setup)
    build_checked || exit 2
    build_shipping || exit 2
    if [ -x "$ROOT/fuzz.sh" ]; then "$ROOT/fuzz.sh" build || echo "fuzz targets not built (thorough tier will report the stage as skipped)"; fi
    echo "setup ok"
    ;;
quick|thorough)
    id="${2:?property id}"
    build_checked || exit 2
    if [ "$id" = "C01" ]; then build_shipping || exit 2; fi
    "$BIN" check "$id" --tier "$cmd"
    rc=$?
    if [ "$cmd" = "thorough" ] && [ $rc -eq 0 ] && [ -x "$ROOT/fuzz.sh" ]; then
        "$ROOT/fuzz.sh" run "$id"
        rc=$?
    fi
    exit $rc
    ;;
replay)
    f="${2:?replay file}"
    build_checked || exit 2
    build_shipping || exit 2
    "$BIN" replay "$f"
    ;;
*)
    echo "usage: run.sh setup | quick <Cxx> | thorough <Cxx> | replay <file>" >&2
    exit 2
    ;;
esac
