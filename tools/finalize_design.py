#!/usr/bin/env python3
"""Inserts / refreshes the seeded-changes table in DESIGN.md (between the SEEDED-TABLE markers)."""
import subprocess,re
table=subprocess.check_output(['python3','/verif/tools/seeded_table.py']).decode()
p='/verif/DESIGN.md'; s=open(p).read()
block='<!-- SEEDED-TABLE-BEGIN -->\n'+table+'<!-- SEEDED-TABLE-END -->'
if 'SEEDED-TABLE-PLACEHOLDER' in s:
    s=s.replace('SEEDED-TABLE-PLACEHOLDER',block,1)
else:
    s=re.sub(r'<!-- SEEDED-TABLE-BEGIN -->.*?<!-- SEEDED-TABLE-END -->',lambda m: block,s,flags=re.S)
open(p,'w').write(s)
print('table rows:',table.count('\n')-2)
