#!/bin/bash
# runall.sh <quick|thorough> [ids...]  - run checks, summarise, validate evidence
tier=${1:-quick}; shift
ids=${@:-C01 C02 C03 C04 C05 C06 C07 C08 C09 C10 C11 C12 C13 C14 C15 C16 C17 C18 C19 C20}
fail=0
for p in $ids; do
  s=$(date +%s.%N)
  out=$(/verif/run.sh $tier $p 2>&1); rc=$?
  e=$(date +%s.%N)
  printf "%s rc=%d %.1fs  %s\n" $p $rc $(echo "$e - $s" | bc) "$(echo "$out" | head -1 | cut -c1-150)"
  echo "$out" | grep -E "^(VIOLATION|INCONCLUSIVE|KNOWN-FINDING|clause|BUILD)" | cut -c1-220
  [ $rc -ne 0 ] && fail=1
  python3-vt - <<PY || fail=1
import json,jsonschema
try:
    jsonschema.validate(json.load(open('/verif/evidence/$p.json')), json.load(open('/root/.vp/EVIDENCE.schema.json')))
except Exception as ex:
    print("EVIDENCE INVALID $p", str(ex)[:200]); raise SystemExit(1)
PY
done
exit $fail
