#!/bin/bash
# seed6.sh <Cxx> <k|l> : round-6 wrapper: confirm + run target check first; if missed, run all twenty.
id=$1; v=$2
out=$(/verif/tools/seedcheck.sh $id $v $id 2>&1); echo "$out" | grep "^\[$id-$v\]"
if echo "$out" | grep -q "NOT CONFIRMED\|does not apply\|no /tmp"; then exit 8; fi
if ! echo "$out" | grep -q "caught by: *$id"; then
  echo "[$id-$v] MISSED by own check; running the others"
  /verif/tools/seedcheck.sh $id $v 2>&1 | grep "^\[$id-$v\]"
fi
