#!/bin/bash
# seedcheck6.sh <Cxx> <k|l> [checks...]   (round 6; STAGE=confirm: only step 1, in parallel across worktrees; STAGE=repo: steps 2-3)
# 1. confirm in the scratch worktree /tmp/wt-Cxx: patch applies, suite at baseline with it, demo
#    fails with it and passes without it; 2. apply to /repo, run the quick checks, undo;
# 3. store under /verif/seeded/<Cxx>-<a|b>/ with meta.json.
id=$1; v=$2; shift 2
checks=${@:-C01 C02 C03 C04 C05 C06 C07 C08 C09 C10 C11 C12 C13 C14 C15 C16 C17 C18 C19 C20}
WT=/tmp/wt-$id; OUT=$WT/OUT; name=$id-$v
export CARGO_TARGET_DIR=$WT/target CARGO_NET_OFFLINE=true
cd $WT || exit 9
git checkout -q -- . ; rm -f rust/core/tests/demo_*.rs
[ -f $OUT/$v.diff ] || { echo "no $OUT/$v.diff"; exit 9; }
suite() { (cd $WT/rust/core && cargo test --workspace --no-fail-fast --offline 2>&1 | grep -E "^test result|^test .* FAILED" | grep -v "demo_" | tr '\n' ';'); }
demo() { # returns 0 if demo passes
  if [ -f $OUT/demo_$v.rs ]; then
    cp $OUT/demo_$v.rs $WT/rust/core/tests/demo_$v.rs
    (cd $WT/rust/core && cargo test --offline --test demo_$v >$OUT/.demo_$v.log 2>&1); r=$?
    rm -f $WT/rust/core/tests/demo_$v.rs; return $r
  elif [ -f $OUT/demo_$v.diff ]; then
    git apply $OUT/demo_$v.diff || return 99
    (cd $WT/rust/core && cargo test --offline --lib demo >$OUT/.demo_$v.log 2>&1); r=$?
    grep -q "running 0 tests" $OUT/.demo_$v.log && ! grep -q "test result: .* [1-9][0-9]* passed\|FAILED" $OUT/.demo_$v.log && r=98
    git apply -R $OUT/demo_$v.diff; return $r
  else return 97; fi
}
if [ "${STAGE:-all}" != repo ]; then
demo; without=$?
git apply $OUT/$v.diff || { echo "patch does not apply"; exit 9; }
s=$(suite)
demo; with=$?
git checkout -q -- .
find $WT/rust/core/src -name '*.snap.new' -delete
base_ok=no
echo "$s" | grep -q "207 passed; 3 failed" && echo "$s" | grep -q "12 passed; 0 failed" && base_ok=yes
echo "[$name] suite with patch: baseline=$base_ok ; demo without patch rc=$without (want 0), with patch rc=$with (want !=0)"
if [ "$base_ok" != yes ] || [ $without -ne 0 ] || [ $with -eq 0 ]; then echo "[$name] NOT CONFIRMED: $s"; exit 8; fi
[ "${STAGE:-all}" = confirm ] && { echo "[$name] CONFIRMED"; exit 0; }
fi
# 2. run our checks against it
unset CARGO_TARGET_DIR
git -C /repo apply $OUT/$v.diff || { echo "does not apply to /repo"; exit 9; }
caught=""; missed=""; detail=""
for c in $checks; do
  o=$(/verif/run.sh quick $c 2>&1); rc=$?
  if [ $rc -eq 1 ]; then caught="$caught $c"; detail="$detail$c: $(echo "$o" | grep -E '^clause' | head -1 | cut -c1-100); ";
  elif [ $rc -eq 0 ]; then missed="$missed $c"; else detail="$detail$c: rc=$rc $(echo "$o" | grep -E 'INCONCLUSIVE|BUILD' | head -1 | cut -c1-120); "; fi
done
git -C /repo checkout -- .
rm -f /verif/evidence/replays/*.json
echo "[$name] caught by:$caught"
echo "[$name] $detail"
# 3. store
D=/verif/seeded/$name; mkdir -p $D
cp $OUT/$v.diff $D/patch.diff
[ -f $OUT/demo_$v.rs ] && cp $OUT/demo_$v.rs $D/demo.rs
[ -f $OUT/demo_$v.diff ] && cp $OUT/demo_$v.diff $D/demo.diff
python3 - "$D" "$id" "$v" "$caught" "$detail" "$checks" <<'PY'
import json,sys,re
D,id,v,caught,detail,checks=sys.argv[1:7]
import os
rp=f'/tmp/wt-{id}/OUT/'+('README2.md' if v in ('c','d') else 'README3.md' if v in ('e','f') else 'README4.md' if v in ('g','h') else 'README5.md' if v in ('i','j') else 'README3.md' if v in ('e','f') else 'README3.md' if v in ('e','f') else 'README3.md' if v in ('e','f') else 'README3.md' if v in ('e','f') else 'README3.md' if v in ('e','f') else 'README3.md' if v in ('e','f') else 'README3.md' if v in ('e','f') else 'README3.md' if v in ('e','f') else 'README3.md' if v in ('e','f') else 'README3.md' if v in ('e','f') else 'README3.md' if v in ('e','f') else 'README.md')
readme=open(rp).read() if os.path.exists(rp) else ''
meta={"breaks_property":id,"variant":v,"source":"independent sub-agent given only the property text and a scratch worktree",
 "needs_to_manifest":"see description",
 "description_from_author":readme,
 "confirmed":{"suite_with_patch":"baseline (207 passed / 3 baseline failures; ecommerce 12 passed)","demo_without_patch":"passes","demo_with_patch":"fails"},
 "ran":{"checks":checks.split(),"tier":"quick","caught_by":caught.split(),"detail":detail}}
json.dump(meta,open(D+'/meta.json','w'),indent=1,ensure_ascii=False)
PY
