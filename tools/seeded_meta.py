#!/usr/bin/env python3
"""Adds the hand-written one-line summary / needs-to-manifest text to /verif/seeded/*/meta.json."""
import json,os
S={
"C01-a":("lib.rs set_limit: subtraction `limit - buffer.len()` hoisted out of its guard -> overflow panic","registry sequence: a run_search that left more hits in the buffer than the new limit, then set_limit (e.g. 6 hits buffered, set_limit(4))"),
"C01-b":("score.rs score_chars_up: folds (matched, typos) in usize and subtracts once -> underflow panic in checked builds, wrap in release","a joined match whose two halves total <= 3 characters with no other title word matched (title `a-b`, query `ab`)"),
"C02-a":("highlight.rs: early return for hits without matches skips the NUL-stripping retain()","empty query + language with expanding reductions + title with ß/œ/æ/ø -> NUL in the returned title"),
"C02-b":("lang.rs unicode_compose: early-out unless some char > U+0300 (should be >=)","French/Portuguese store, title in decomposed form whose highest code point is U+0300 (grave only)"),
"C03-a":("jaccard: record-side set never de-duplicated (`set2.dedup(); set2.dedup();`)","typed prefix with a repeated letter: `ee` for eel, `ll` for llama, `1000` for 10000"),
"C03-b":("text.rs: candidate.take() moved before the joined-record attempt","language with function words; prefix matches a function word of the title; a later short word with a successor makes the join attempt fail"),
"C04-a":("damlev: last_i1.insert only if the letter is not a doubled one","x-y-x word typed x-x-y (level -> leevl), length 5-7, store without a language (no vowel discount)"),
"C04-b":("trigram_index: query side skips the one-letter prefix gram for words longer than 3","five-letter word with 2nd and 3rd letters swapped (metal -> mteal): first letter is the only shared gram"),
"C05-a":("word.rs: the 'more than one insertion/deletion' guard applies only to unfinished query words","finished query word, English (vowel classes + stemmer), title word >= 8 chars that the stemmer shortens, query missing two vowels (`chclate ` -> [chocolate])"),
"C05-b":("trigram_index prepare: counters no longer cleared per call, only the returned candidates are zeroed","an earlier query matching more than 10*limit records, then a query sharing no gram with the stale titles"),
"C06-a":("limitsort: 'skip hopeless items' compares against buffer.last(), which is the worst kept item only right after a compaction","limit >= 2, more than 2*limit hits, a good hit arriving after a compaction followed by a slightly worse one"),
"C06-b":("search/mod.rs: filter(hit_matches) moved below the limit sort","multi-word query whose unfinished last word matches < half of a long record word, plus more candidates than limit"),
"C07-a":("limitsort: early-skip against a moving 'bar' after the first trim","at least 2*limit+2 matching hits arriving in a particular rating order (limit 2: 10,50,20,30,35,40)"),
"C07-b":("score.rs: rating saturated at i32::MAX before the cast","ratings >= 2^31 on hits equal in every other score component (outside the property's rating range [0,2^31): see note)"),
"C08-a":("tokenize_record: lower() and set_pos() swapped, so capitalised function words are not recognised","a capitalised function word in the title ('The metal detector') and that word as the query"),
"C08-b":("lang_german(): compose/reduce maps registered after the function words, so für/während/bloß lose their reduced spelling","German store, one of those three function words as the query"),
"C09-a":("WordMatch::split: guard replaced by checked_sub, `<=` silently becomes `<` -> empty second span","last query word = a complete title word of >= 5 chars plus one stray character, another word follows in the title (`microx` vs `Micro USB cable`)"),
"C09-b":("WordMatch::split: guard rewritten assuming a one-character separator","two title words separated by exactly two characters (', '), first word >= 8 chars, glued query of the first word plus two non-matching characters"),
"C10-a":("Store::add keeps the cached empty-query list when full and the new rating is not greater than the last cached one","store holds >= limit records, empty search, then a record with exactly the tail's rating and an earlier title"),
"C10-b":("trigram_index prepare: counts.clear() replaced by zeroing only the returned (capped) shortlist","one query touching more than 10*limit records, then a different query"),
"C11-a":("tokenize_query: lower() moved to the front of the pipeline; normalize rebuilds chars from the un-lowered source","query with both a decomposed accent and upper-case letters"),
"C11-b":("lang.rs unicode_compose: early exit tests `ch > U+0300` (drops exactly the combining grave)","French/Portuguese, query or title whose only combining marks are grave accents"),
"C12-a":("Store::add keeps the cache when the list is full and the new rating is <= the last cached entry","tied-rating record with an earlier title added after an empty-query search on a store with >= limit records"),
"C12-b":("top_ixs comparator compares title.source instead of title.chars","more records than limit, equal ratings straddling the cut, titles whose raw order differs from their normalised order (Zucchini vs apple, Äpfel)"),
"C13-a":("text.rs: candidate.take() runs before the join attempt","language with function words; title starting with one; 'the in' for 'The Internet We Live In'"),
"C13-b":("jaccard: dedup kept only on the query side","words with fewer than about half of their letters distinct (Mississippi, Tennessee, AAA) typed in full"),
"C14-a":("text.rs: guard on the joined-query branch `<` -> `<=`","split leaving exactly one letter in the second half of a 3-letter word or a 4-letter word ending in a consonant ('ca t')"),
"C14-b":("WordView::join: stem = self.stem + dist + other.stem","language with a stemmer and a split whose first half the stemmer shortens ('business man' for businessman)"),
"C15-a":("CharClass::Whitespace uses is_ascii_whitespace()","a non-ASCII space (NBSP, U+2009, U+3000) between two alphanumeric runs"),
"C15-b":("Text::lower uses the full multi-char lower-case mapping (flat_map)","text containing U+0130 İ, the only char whose lower-case form is two chars"),
"C16-a":("damlev: last_i1.insert only if the letter is not a doubled one (same edit as C04-a)","first word has a doubled letter whose second occurrence is transposed with the next letter (tassk vs tasks)"),
"C16-b":("DistMatrix::prepare: `return self.init();` in the growth branch skips the per-character borders","a language with character classes, a word above the current capacity (>= 21 letters first time), alignment starting with vowel/non-letter insertions"),
"C17-a":("Jaccard::similarity clamps both slices to the first 20 items","a word longer than 20 chars with a set-changing char past position 20"),
"C17-b":("dedup folded into the merge loop, tails after the loop still count raw items","a repeated char in one word that is greater than every char of the other word (apple/able)"),
"C18-a":("collect_grams: sort+dedup moved into add(), prepare() gets un-deduplicated query grams","a gram repeated in the query and more than 10*size candidates"),
"C18-b":("TrigramIndex::add returns early for titles without grams, before len += 1","an empty / punctuation-only title added before other records, query aimed at the last-added record"),
"C19-a":("DistMatrix::prepare growth condition off by one (`last > size`)","a word of exactly size-1 characters (21 on a fresh thread, then 35, 53 ...)"),
"C19-b":("TrigramIndex::add returns early for titles without grams, before len += 1 (same edit as C18-b)","a record with an empty or punctuation-only title, further records after it, a query hitting one of the last"),
"C20-a":("destroy_store keeps the result buffer (shrink_to), create_store reuses it","search with hits on id X, destroy X, create X, read the results before any search on the new store"),
"C20-b":("run_search returns early for an empty store or limit 0, above buffer.clear()","a search with hits, then set_limit(id, 0), then another search on the same id"),
}
for name,(summary,needs) in S.items():
    p=f'/verif/seeded/{name}/meta.json'
    if not os.path.exists(p): continue
    m=json.load(open(p)); m['summary']=summary; m['needs_to_manifest']=needs
    # first clause reported by the target check
    det=m['ran'].get('detail','')
    tgt=m['breaks_property']
    import re
    mm=re.search(re.escape(tgt)+r': clause: ([^;]*);',det)
    m['ran']['target_clause']=('`'+mm.group(1).strip()+'`') if mm else ''
    json.dump(m,open(p,'w'),indent=1,ensure_ascii=False)
print('ok')
