#!/usr/bin/env python3
"""Round 6: hand-written one-line summary / needs-to-manifest text for /verif/seeded/*-{k,l}/meta.json."""
import json,os,re
S={
"C02-k":("highlight(): early return for hits without matches skips the final NUL strip","query without words + NUL-padded title (ß/ẞ in German, æ/œ/ø in French, or a literal NUL)"),
"C02-l":("Text::normalize runs unicode_compose only if a mark in U+0300..=U+030F is present (misses the cedilla U+0327)","French/Portuguese store, decomposed ç/Ç and no other decomposed accent anywhere in the title"),
"C04-k":("TrigramIndex::prepare keeps a candidate only with >= 2 shared grams once the query has more than 4 grams","word of exactly 5 letters with the adjacent swap at position 0 or 1 (exactly one gram shared)"),
"C04-l":("damlev: last_i1.entry(ch).or_insert(..) keeps the FIRST row of a letter instead of the last","adjacent swap whose second letter already occurs earlier in the word, with an expensive fallback (language-less store, or two consonants)"),
"C05-k":("word_match fast path: a finished query word equal to the record word's stem is a zero-typo whole-word match","stemming language, title word with a suffix of >= 2 chars, query = the stem, finished (`mailbox ` -> [mailboxes])"),
"C05-l":("TrigramIndex::prepare returns every record when the store holds no more records than the limit","|store| <= limit and a short query whose first two letters are swapped relative to the title (abcd / bacd)"),
"C06-k":("prepare drops one-gram candidates when more than `limit` records share >= 2 grams","a genuine hit through one shared gram (a one-letter word), more than `limit` multi-gram non-hits, limit below that count"),
"C08-k":("score_tails_down caps every tail at 8 untyped letters","u of exactly 9 letters, its 1-letter prefix as the query, the longer title rated higher"),
"C08-l":("Word::is_function no longer counts Particle","a function-word query whose final part of speech is Particle (en not/in/on/by/to, de doch/schon/aber, fr ne, ru particles)"),
"C09-k":("WordMatch::split: the `<=` guard rewritten as checked_sub (`<`), second half gets the span (0,0)","two adjacent title words, unfinished last query word of length len(w1)+gap starting with w1 whose tail misses w2 (`microx` / micro biology) -> empty span"),
"C09-l":("lib.rs run_search: repeated-query shortcut keyed by (query, records, limit) but not the markers","registry: run_search(q), highlight_with(new markers), run_search(same q)"),
"C10-k":("DistMatrix::init(from): on growth only the new border sentinels are written, though resize changed the stride","a word of >= 21 chars compared first on the thread, then a 3-4-letter query with a consonant inserted at position 1"),
"C10-l":("prepare zeroes only the counters of the returned (truncated) candidates","a query sharing a gram with more than 10*limit records, then another query"),
"C11-k":("TextOwn::normalize updates the text span only after composition, not after folding","German/French store, text with ß/ẞ/œ/æ and a word reaching the end of the text (`straße` vs `strasse`)"),
"C11-l":("Lang::unicode_compose early exit unless a listed combining accent is present (list lacks the cedilla)","French/Portuguese, decomposed ç/Ç and no other decomposed accent in the same text"),
"C12-k":("Store::add keeps the cached empty-query list when the new rating is <= the last listed one (`>=` for `>`)","cached list, unchanged limit, new record with the SAME rating as the last listed one and an earlier title"),
"C12-l":("top_ixs tie-break compares word slices instead of the whole normalised title","equal ratings straddling the cut-off, titles differing first at a separator (leading/doubled separator, ':' against a digit)"),
"C13-k":("hit_matches: a query of several words that are all function words matches nothing","language store, title whose first and last words (or whole text) are function words (`Before and After`)"),
"C13-l":("TrigramIndex caches the last candidate list keyed by the query's gram set, not by the size","search T at a small limit, raise the limit with no add, search T (or its words swapped) again"),
"C17-k":("Jaccard skips preparing the second argument when address and length equal the previous call's","two calls on one object whose second arguments share address and length but not content"),
"C17-l":("Jaccard::similarity returns 1.0 when both slices start at the same address (length not compared)","two views of one buffer from the same first element with different lengths (`&w[..k]` vs `&w[..]`)"),
"C20-k":("set_limit replaces the buffer with Vec::with_capacity(limit) instead of reserving","non-empty buffer, set_limit above the current capacity (> 10 on a fresh store), results read before the next search"),
"C20-l":("run_search returns early for a repeated query; the per-id entry is not dropped by highlight_with","run_search(id,q), highlight_with(id,new), run_search(id,q) with nothing else on that id in between"),
}
for name,(summary,needs) in S.items():
    p=f'/verif/seeded/{name}/meta.json'
    if not os.path.exists(p): print('missing',name); continue
    m=json.load(open(p)); m['summary']=summary; m['needs_to_manifest']=needs; m['round']=6
    det=m['ran'].get('detail',''); tgt=m['breaks_property']
    mm=re.search(re.escape(tgt)+r': clause: ([^;]*);',det)
    m['ran']['target_clause']=('`'+mm.group(1).strip()+'`') if mm else m['ran'].get('target_clause','')
    json.dump(m,open(p,'w'),indent=1,ensure_ascii=False)
print('ok')
