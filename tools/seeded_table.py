#!/usr/bin/env python3
"""Prints the markdown table of seeded changes from /verif/seeded/*/meta.json."""
import json,glob,os,re
rows=[]
for d in sorted(glob.glob('/verif/seeded/*/')):
    m=json.load(open(d+'meta.json'))
    name=os.path.basename(d.rstrip('/'))
    tgt=m['breaks_property']
    caught=m['ran']['caught_by']
    summary=(m.get('summary') or '')+' — '+(m.get('needs_to_manifest') or '')
    rows.append((name,tgt,summary,'**yes**' if tgt in caught else '**NO**',' '.join(c for c in caught if c!=tgt) or '-', m.get('ran',{}).get('target_clause','')))
print('| change | round | what it does — what it needs to manifest | caught by its own check (quick tier): clause | also caught by |')
print('| --- | --- | --- | --- | --- |')
rnd={'a':'1','b':'1','c':'2','d':'2','e':'3','f':'3','g':'4','h':'4','i':'5','j':'5','k':'6','l':'6'}
for r in rows:
    print(f'| `{r[0]}` | {rnd.get(r[0][-1],"?")} | {r[2]} | {r[3]} {r[5]} | {r[4]} |')
