#!/usr/bin/env python3
"""Prints the markdown table of seeded changes from /verif/seeded/*/meta.json."""
import json,glob,os,re
rows=[]
for d in sorted(glob.glob('/verif/seeded/*/')):
    m=json.load(open(d+'meta.json'))
    name=os.path.basename(d.rstrip('/'))
    tgt=m['breaks_property']
    caught=m['ran']['caught_by']
    summary=m.get('summary') or ''
    rows.append((name,tgt,summary,'**yes**' if tgt in caught else '**NO**',' '.join(c for c in caught if c!=tgt) or '-', m.get('ran',{}).get('target_clause','')))
print('| change | what it does / what it needs to manifest | caught by its own check (quick) | also caught by |')
print('| --- | --- | --- | --- |')
for r in rows:
    print(f'| `{r[0]}` | {r[2]} | {r[3]} {r[5]} | {r[4]} |')
