#!/bin/bash
# seedmatrix.sh [names...] : for each /verif/seeded/<name>: git -C /repo apply patch.diff, run ALL
# twenty quick checks, git -C /repo checkout -- . ; records the result in meta.json ("ran").
cd /verif
names=${@:-$(ls seeded)}
for n in $names; do
  D=/verif/seeded/$n
  git -C /repo checkout -q -- . ; git -C /repo apply $D/patch.diff || { echo "[$n] does not apply"; continue; }
  caught=""; detail=""
  tgt=${n%%-*}
  for c in C01 C02 C03 C04 C05 C06 C07 C08 C09 C10 C11 C12 C13 C14 C15 C16 C17 C18 C19 C20; do
    # the change's own check runs the full quick tier; with OTHERS_SCALE set the other nineteen run that fraction of it
    if [ "$c" = "$tgt" ] || [ -z "${OTHERS_SCALE:-}" ]; then o=$(/verif/run.sh quick $c 2>&1); rc=$?; else o=$(VERIF_SCALE=$OTHERS_SCALE /verif/run.sh quick $c 2>&1); rc=$?; fi
    if [ $rc -eq 1 ]; then caught="$caught $c"; detail="$detail$c: $(echo "$o" | grep -E '^clause' | head -1 | cut -c1-100); ";
    elif [ $rc -ne 0 ]; then detail="$detail$c: rc=$rc $(echo "$o" | grep -E 'INCONCLUSIVE|BUILD' | head -1 | cut -c1-160); "; fi
  done
  git -C /repo checkout -q -- .
  rm -f /verif/evidence/replays/*.json
  echo "[$n] caught by:$caught"
  python3 - "$D" "$caught" "$detail" "${OTHERS_SCALE:-1}" <<'PY'
import json,sys,re
D,caught,detail,oscale=sys.argv[1:5]
m=json.load(open(D+'/meta.json'))
tgt=m['breaks_property']
mm=re.search(re.escape(tgt)+r': clause: ([^;]*);',detail)
m['ran']={"how":"git -C /repo apply patch.diff; /verif/run.sh quick <each of C01..C20>; git -C /repo checkout -- .","tier":"quick","other_checks_scale":oscale,
 "checks":[f"C{i:02d}" for i in range(1,21)],"caught_by":caught.split(),"detail":detail,"target_clause":('`'+mm.group(1).strip()+'`') if mm else ''}
json.dump(m,open(D+'/meta.json','w'),indent=1,ensure_ascii=False)
PY
done
