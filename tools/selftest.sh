#!/bin/bash
# Engine self-test against planted failures. Uses a scratch LSVERIF_ROOT so nothing lands in
# /verif/evidence. Expects: ST1/ST2/ST3/ST5 -> exit 1 with a shrunk replay, ST4 -> exit 2, ST6 -> exit 0.
set -u
BIN=${1:-/verif/harness/target/release/lsverif}
R=$(mktemp -d /tmp/lsverif-selftest.XXXX); export LSVERIF_ROOT=$R LSVERIF_SELFTEST=1
ok=1
run() { id=$1; want=$2; shift 2
  out=$("$BIN" check $id --tier quick 2>&1); rc=$?
  line=$(echo "$out" | grep -E "^(VIOLATION|INCONCLUSIVE)" | head -1)
  if [ $rc -ne $want ]; then echo "SELFTEST FAIL $id: rc=$rc want $want :: $out" | head -5; ok=0; else echo "ok $id rc=$rc $line"; fi
  if [ $want -eq 1 ]; then
    f=$(echo "$line" | sed 's/.*replay=//')
    n=$(python3 -c "import json;print(len(json.load(open('$f'))['choices']))")
    case=$(python3 -c "import json;print(json.load(open('$f'))['case'])")
    echo "   shrunk to $n choices: $case"
    # minimal form is xs=[501,500] -> 2 'more' draws + 2 values + final stop = 5 choices
    [ "$n" -le 6 ] || { echo "SELFTEST FAIL $id: shrink left $n choices"; ok=0; }
    "$BIN" replay "$f" >/dev/null 2>&1; r2=$?
    [ $r2 -eq 1 ] || { echo "SELFTEST FAIL $id: replay rc=$r2"; ok=0; }
  fi
}
run ST6 0; run ST1 1; run ST2 1; run ST3 1; run ST5 1
if [ "${SELFTEST_HANG:-1}" = 1 ]; then run ST4 2; fi
rm -rf "$R"
[ $ok -eq 1 ] && echo "SELFTEST OK" || { echo "SELFTEST FAILED"; exit 1; }
