#!/bin/bash
# silence.sh "<seeds>" "<prngs>" [ids...] : every quick check must stay silent on the unchanged tree
seeds=${1:-"1 2 3"}; prngs=${2:-"splitmix xoshiro pcg"}; shift 2
ids=${@:-C01 C02 C03 C04 C05 C06 C07 C08 C09 C10 C11 C12 C13 C14 C15 C16 C17 C18 C19 C20}
bad=0
for s in $seeds; do for g in $prngs; do for p in $ids; do
  out=$(VERIF_SEED=$s VERIF_PRNG=$g /verif/run.sh quick $p 2>&1); rc=$?
  if [ $rc -ne 0 ]; then bad=1; echo "ALARM seed=$s prng=$g $p rc=$rc"; echo "$out" | grep -E "^(clause|detail|case|VIOLATION|INCONCLUSIVE)" | cut -c1-600; fi
done; echo "seed=$s prng=$g done"; done; done
[ $bad -eq 0 ] && echo "SILENT on all" || echo "ALARMS present"
