#!/bin/bash
# trymut.sh <file-relative-to-rust/core/src> <python-regex-or-literal old> <new> <checks...>
# Applies a literal one-occurrence replacement to /repo, runs the repo suite and the given
# quick checks, then restores /repo. For sensitivity experiments only.
f="/repo/rust/core/src/$1"; old="$2"; new="$3"; shift 3
python3 - "$f" "$old" "$new" <<'PY' || exit 9
import sys
f,old,new=sys.argv[1:4]
s=open(f).read()
if s.count(old)<1: print("PATTERN NOT FOUND"); sys.exit(1)
open(f,'w').write(s.replace(old,new,1))
PY
( cd /repo/rust/core && cargo test --workspace --no-fail-fast --offline 2>&1 | grep -E "^test result" | tr '\n' ' '; echo )
for c in "$@"; do
  out=$(/verif/run.sh quick $c 2>&1); rc=$?
  echo "== $c rc=$rc: $(echo "$out" | grep -E "^(clause|VIOLATION|INCONCLUSIVE|BUILD)" | head -3 | tr '\n' ' ')"
  echo "$out" | grep -E "^detail" | cut -c1-300
done
git -C /repo checkout -- .
